(* FlowCache.v -- property C09, clause "each session produces the same result it produces when run alone", for the
   lazily filled flow cache of flows/definition/assets.go (flowAssets.Get, flowAssets.FindByName).  Definitions only.

   Every look-up runs under the cache's mutex (that is C09's race part), so concurrent sessions amount to SOME sequence
   of look-ups.  The cache is transparent when the answer to a look-up does not depend on the look-ups that happened
   before it, i.e. when it is the answer a cold cache gives: a function of the source alone.

   asset      what assets.Source hands out: the uuid and name the SOURCE knows the flow by, and a definition
   fdef       the definition read from it: it carries a uuid and a name OF ITS OWN (a legacy export with a top level
              uuid, a copied flow whose embedded uuid was not rewritten, static.NewFlow(uuid, name, definition))
   get / find      the code after fix <C09_flow_cache_keys>: cached under the uuid asked for; a name is resolved by the source
   get_old / find_old   the code before it: cached under the uuid INSIDE the definition; FindByName scans the cache
              first (in whatever order the map yields) and only then asks the source *)
From Coq Require Import List Arith Bool.
Import ListNotations.

Record fdef := { d_uuid : nat; d_name : nat; d_body : nat }.
Record asset := { a_uuid : nat; a_name : nat; a_def : fdef }.

Definition source := list asset.          (* in the order of the source; names already case-folded *)
Definition cache := list (nat * fdef).    (* key -> loaded definition; the list order stands for the map's visiting order *)

Fixpoint by_uuid (src : source) (u : nat) : option asset :=
  match src with
  | [] => None
  | a :: r => if Nat.eqb (a_uuid a) u then Some a else by_uuid r u
  end.

Fixpoint by_name (src : source) (n : nat) : option asset :=
  match src with
  | [] => None
  | a :: r => if Nat.eqb (a_name a) n then Some a else by_name r n
  end.

Fixpoint cached (c : cache) (k : nat) : option fdef :=
  match c with
  | [] => None
  | (k', d) :: r => if Nat.eqb k' k then Some d else cached r k
  end.

(* ---- the repaired code ---- *)

Definition get (src : source) (c : cache) (u : nat) : cache * option fdef :=
  match cached c u with
  | Some d => (c, Some d)
  | None => match by_uuid src u with
            | None => (c, None)
            | Some a => ((u, a_def a) :: c, Some (a_def a))
            end
  end.

Definition find (src : source) (c : cache) (n : nat) : cache * option fdef :=
  match by_name src n with
  | None => (c, None)
  | Some a => match cached c (a_uuid a) with
              | Some d => (c, Some d)
              | None => ((a_uuid a, a_def a) :: c, Some (a_def a))
              end
  end.

(* ---- the code before the fix ---- *)

Definition get_old (src : source) (c : cache) (u : nat) : cache * option fdef :=
  match cached c u with
  | Some d => (c, Some d)
  | None => match by_uuid src u with
            | None => (c, None)
            | Some a => ((d_uuid (a_def a), a_def a) :: c, Some (a_def a))
            end
  end.

Definition find_old (src : source) (c : cache) (n : nat) : cache * option fdef :=
  match List.find (fun kd => Nat.eqb (d_name (snd kd)) n) c with
  | Some kd => (c, Some (snd kd))
  | None => match by_name src n with
            | None => (c, None)
            | Some a => ((d_uuid (a_def a), a_def a) :: c, Some (a_def a))
            end
  end.

Inductive lookup_op := LGet (u : nat) | LFind (n : nat).

Definition do_op (src : source) (c : cache) (o : lookup_op) : cache * option fdef :=
  match o with LGet u => get src c u | LFind n => find src c n end.

Definition do_op_old (src : source) (c : cache) (o : lookup_op) : cache * option fdef :=
  match o with LGet u => get_old src c u | LFind n => find_old src c n end.

(* the cache after other sessions' look-ups, in the order the mutex happened to serialise them *)
Definition after (src : source) (ops : list lookup_op) : cache :=
  fold_left (fun c o => fst (do_op src c o)) ops [].

Definition after_old (src : source) (ops : list lookup_op) : cache :=
  fold_left (fun c o => fst (do_op_old src c o)) ops [].

(* ---- loading is not free: migration on first load draws from the UUID source (hunt2 C08 f1) ----
   The UUID source of the session is a counter.  draws d = the number of UUIDs the migration of definition d takes when
   it is read (0 for a definition stored at the current spec version; > 0 for spec < 13.4 with templating and for every
   legacy definition).  enter_flow: a session looks flow u up and then takes the next UUID (for the child run); the
   answer is (that UUID, the counter afterwards), None when the flow does not exist. *)
Definition enter_flow (draws : fdef -> nat) (src : source) (c : cache) (u : nat) (ctr : nat) : option (nat * nat) :=
  match snd (get src c u) with
  | None => None
  | Some d => let ctr' := match cached c u with Some _ => ctr | None => ctr + draws d end in
              Some (ctr', S ctr')
  end.
