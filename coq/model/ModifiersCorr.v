(* ModifiersCorr.v — comparison of model/Modifiers.v with observations of the real code (written by
   harness/cmd/c03).  The environment functions of [menv] are finite tables filled from the real
   gocommon/urns, assets, value parsers and (outside the query fragment of Groups.v) the real query
   evaluator.  No proofs. *)
From Coq Require Import List NArith Bool.
From Verif Require Import model.Contact model.Modifiers model.Groups.
Import ListNotations.
Open Scope N_scope.

Fixpoint lookupN (tbl : list (N * N)) (k : N) : N :=
  match tbl with
  | [] => 0
  | (k', v) :: rest => if N.eqb k' k then v else lookupN rest k
  end.

Fixpoint lookupT {A : Type} (tbl : list (text * A)) (k : text) : option A :=
  match tbl with
  | [] => None
  | (k', v) :: rest => if text_eqb k' k then Some v else lookupT rest k
  end.

Definition memN (k : N) (l : list N) : bool := existsb (N.eqb k) l.

Definition otext_eqb (a b : option text) : bool :=
  match a, b with
  | None, None => true
  | Some x, Some y => text_eqb x y
  | _, _ => false
  end.

Fixpoint lookup_loc (tbl : list (ftype * option text * text * (text * text * text)))
  (t : ftype) (p : option text) (raw : text) : text * text * text :=
  match tbl with
  | [] => ([], [], [])
  | (t', p', raw', r) :: rest =>
      if ftype_eqb t' t && otext_eqb p' p && text_eqb raw' raw then r else lookup_loc rest t p raw
  end.

Definition chan_key (ch : option N) : N := match ch with None => 0 | Some k => k + 1 end.

Fixpoint lookup_setch (tbl : list (N * list (N * N))) (ch : option N) (u : N) : N :=
  match tbl with
  | [] => 0
  | (k, t) :: rest => if N.eqb k (chan_key ch) then lookupN t u else lookup_setch rest ch u
  end.

Fixpoint seqN (start : N) (n : nat) : list N :=
  match n with O => [] | S n' => start :: seqN (start + 1) n' end.

Record etables := {
  x_max : N;
  x_norm : list (N * N); x_valid : list N; x_ident : list (N * N); x_scheme : list (N * N);
  x_setch : list (N * list (N * N)); x_tel : N;
  x_urnchan : list (N * N);                            (* raw URN -> 1 + channel its query names; absent: none *)
  x_cansend : list N; x_supports : list (N * N);       (* (channel, scheme) pairs *)
  x_ftypes : list ftype;
  x_pnum : list (text * N); x_pdt : list (text * N);
  x_ploc : list (ftype * option text * text * (text * text * text));
  x_seencmp : list (N * list N);                       (* date comparison k on last_seen_on: the instants satisfying it
                                                          in the environment ensureQueryBasedGroups evaluates in *)
  x_seencmp_m : list (N * list N);                     (* ... and in the contact-merged environment of modifiers.Apply *)
  x_groups : list (option query)                        (* group g is the g-th entry; None = static *)
}.

Fixpoint lookupL (tbl : list (N * list N)) (k : N) : list N :=
  match tbl with
  | [] => []
  | (k', v) :: rest => if N.eqb k' k then v else lookupL rest k
  end.

Definition group_query (x : etables) (g : N) : option query := nth (N.to_nat g) (x_groups x) None.

Definition mk_env_with (x : etables) (seencmp : list (N * list N)) : menv :=
  {| max_field_chars := x_max x;
     urn_norm1 := lookupN (x_norm x);
     urn_valid := fun u => memN u (x_valid x);
     urn_identity := lookupN (x_ident x);
     urn_scheme := lookupN (x_scheme x);
     urn_set_channel := lookup_setch (x_setch x);
     urn_channel := fun u => match lookupN (x_urnchan x) u with 0 => None | k => Some (k - 1) end;
     tel_scheme := x_tel x;
     chan_can_send := fun k => memN k (x_cansend x);
     chan_supports := fun k s => existsb (fun p => N.eqb (fst p) k && N.eqb (snd p) s) (x_supports x);
     field_types := x_ftypes x;
     parse_num := lookupT (x_pnum x);
     parse_dt := lookupT (x_pdt x);
     parse_loc := lookup_loc (x_ploc x);
     all_groups := seqN 0 (length (x_groups x));
     uses_query := fun g => match group_query x g with Some _ => true | None => false end;
     matches := fun g c => match group_query x g with
                           | Some q => qeval (lookupN (x_scheme x)) (x_ftypes x)
                                             (fun k t => memN t (lookupL seencmp k)) q c
                           | None => false
                           end |}.

(* the session environment (also what a direct modifiers.Apply is given by the harness) and the contact-merged one *)
Definition mk_env (x : etables) : menv := mk_env_with x (x_seencmp x).
Definition mk_env_m (x : etables) : menv := mk_env_with x (x_seencmp_m x).

Definition tables_in_fragment (x : etables) : bool :=
  forallb (fun oq => match oq with Some q => in_fragment (x_ftypes x) q | None => true end) (x_groups x).

(* ---- equality of observations ------------------------------------------------------------------------ *)
Definition contact_obs_eqb (a b : contact) : bool :=
  text_eqb (c_name a) (c_name b) && N.eqb (c_lang a) (c_lang b) && status_eqb (c_status a) (c_status b)
  && optN_eqb (c_tz a) (c_tz b) && optN_eqb (c_last_seen a) (c_last_seen b)
  && listN_eqb (raw_urns (c_urns a)) (raw_urns (c_urns b))
  && listN_eqb (c_groups a) (c_groups b)
  && raw_fields_sub (c_fields a) (c_fields b) && raw_fields_sub (c_fields b) (c_fields a)
  && oticket_eqb (c_ticket a) (c_ticket b).

(* ... and the channel pointers: the observed contact carries the pointers of the real contact in memory *)
Fixpoint chans_eqb (a b : list curn) : bool :=
  match a, b with
  | [], [] => true
  | x :: a', y :: b' => optN_eqb (cu_chan x) (cu_chan y) && chans_eqb a' b'
  | _, _ => false
  end.
Definition contact_obs_ptr_eqb (a b : contact) : bool := contact_obs_eqb a b && chans_eqb (c_urns a) (c_urns b).

Definition event_eqb (a b : event) : bool :=
  match a, b with
  | ENameChanged x, ENameChanged y => text_eqb x y
  | ELanguageChanged x, ELanguageChanged y => N.eqb x y
  | EStatusChanged x, EStatusChanged y => status_eqb x y
  | ETimezoneChanged x, ETimezoneChanged y => optN_eqb x y
  | EURNsChanged x, EURNsChanged y => listN_eqb x y
  | EGroupsChanged a1 r1, EGroupsChanged a2 r2 => listN_eqb a1 a2 && listN_eqb r1 r2
  | EFieldChanged f1 v1, EFieldChanged f2 v2 => N.eqb f1 f2 && ofvalue_eqb v1 v2
  | ETicketOpened t1 n1, ETicketOpened t2 n2 => ticket_eqb t1 t2 && text_eqb n1 n2
  | EContactRefreshed c1, EContactRefreshed c2 => contact_obs_eqb c1 c2
  | EMsgReceived t1, EMsgReceived t2 => N.eqb t1 t2
  | EError, EError => true
  | _, _ => false
  end.

Fixpoint events_eqb (a b : list event) : bool :=
  match a, b with
  | [], [] => true
  | x :: a', y :: b' => event_eqb x y && events_eqb a' b'
  | _, _ => false
  end.

(* ---- a directly applied modifier, applied twice ------------------------------------------------------ *)
Record mcase := {
  k_tables : etables; k_contact : contact; k_mod : modifier; k_fresh : N;
  k_urns : list N; k_chans : list (option N);          (* every URN / channel the tables know (informative) *)
  (* observed on the implementation: first application *)
  k_o_contact : contact; k_o_events : list event; k_o_modified : bool;
  (* second application of the same modifier to the resulting contact *)
  k_o_contact2 : contact; k_o_events2 : list event; k_o_modified2 : bool
}.

Definition check_m (k : mcase) : bool :=
  let E := mk_env (k_tables k) in
  let '(c1, evs1, m1) := apply E (k_fresh k) (k_mod k) (k_contact k) in
  let '(c2, evs2, m2) := apply E (k_fresh k + 1) (k_mod k) c1 in
  contact_obs_ptr_eqb c1 (k_o_contact k) && events_eqb evs1 (k_o_events k) && Bool.eqb m1 (k_o_modified k)
  && contact_obs_ptr_eqb c2 (k_o_contact2 k) && events_eqb evs2 (k_o_events2 k) && Bool.eqb m2 (k_o_modified2 k)
  && wf_contact_b E (k_contact k) && mod_wf_b E (k_mod k)
  && mod_env_ok E (k_mod k) (k_contact k) && tables_in_fragment (k_tables k)
  && chan_ok_b E (k_contact k) && chan_env_ok E (k_mod k) (k_contact k) && chan_ok_b E c1 && chan_ok_b E c2.

(* ---- a sprint: the kind of engine call and the modifiers of the executed actions, in order ------------ *)
Record scase := {
  s_tables : etables; s_contact : contact; s_kind : sprint_kind; s_acts : list (N * modifier);
  s_o_contact : contact; s_o_events : list event
}.

Definition check_s (k : scase) : bool :=
  let E := mk_env (s_tables k) in
  (* the engine as the code stands: re-evaluation at start/resume in the session environment, modifiers in the merged one *)
  let '(c1, evs1) := run_sprint2 E (mk_env_m (s_tables k)) (s_kind k) (s_acts k) (s_contact k) in
  contact_obs_ptr_eqb c1 (s_o_contact k) && events_eqb evs1 (s_o_events k) && tables_in_fragment (s_tables k)
  && wf_contact_b E (s_contact k) && forallb (fun fm => mod_wf_b E (snd fm)) (s_acts k)
  && match s_kind k with KResume (Some c') _ => wf_contact_b E c' && chan_ok_b E c' | _ => true end
  && chan_ok_b E (s_contact k).

Fixpoint mismatches_from {A : Type} (chk : A -> bool) (i : N) (ks : list A) : list N :=
  match ks with
  | [] => []
  | k :: rest => (if chk k then [] else [i]) ++ mismatches_from chk (i + 1) rest
  end.

Definition mismatches_m (ks : list mcase) : list N := mismatches_from check_m 0 ks.
Definition mismatches_s (ks : list scase) : list N := mismatches_from check_s 0 ks.
