(* LegacyCorr.v — comparison of model/Legacy.v + model/LegacySyntax.v with observations of the real code
   (written by harness/cmd/c17).  No proofs.

   A case carries
     * the tokens the real template scanner produced for a legacy template, the options, the
       MigrateContextReference oracle pairs for the names that occur, and what expressions.MigrateTemplate
       returned (output string, error or not): the model must produce the same STRING;
     * expression texts with the tree excellent.Parse built for each (None = syntax error): the model
       parser must build the same tree (text literals compared by the characters they denote, numbers by
       value). *)
From Coq Require Import List NArith Bool.
From Verif Require Import model.LegacyTy gen.LegacyTable model.LegacySyntax model.Legacy lib.Quote.
Import ListNotations.
Open Scope N_scope.

(* excellent.Parse output, node kinds of excellent/tree.go *)
Inductive g3 :=
| G3Text (value : text)          (* TextLiteral.Value *)
| G3Num (s : text)               (* NumberLiteral.Value rendered by decimal.String() *)
| G3True | G3False | G3Null
| G3Ref (name : text)
| G3Dot (c : g3) (lookup : text)
| G3Index (c i : g3)
| G3Call (f : g3) (args : list g3)
| G3Paren (e : g3)
| G3Neg (e : g3)
| G3Bin (o : binop) (a b : g3)
| G3Other.                       (* AnonFunction: outside the model *)

(* VisitTextLiteral: strconv.Unquote, on error strip the quotes.  None = the result is not a code point
   list (lib/Quote.v: UOutside) *)
Definition chars3 (raw : text) : option text :=
  match unquote raw with
  | UOk s => Some s
  | USyntax => Some (removelast (tl raw))
  | UOutside => None
  | UFuel => None            (* unreachable: proofs/QuoteProofs.v unquote_no_fuel *)
  end.

Fixpoint strip_zeros (s : text) : text :=
  match s with
  | c :: r => if c =? 48 then strip_zeros r else s
  | [] => []
  end.

(* decimal.String() of a literal of the form digits or digits.digits *)
Definition num_norm (raw : text) : text :=
  let (ip, r) := span ascii_digit raw in
  let ip' := match strip_zeros ip with [] => [48] | x => x end in
  match r with
  | c :: fp =>
      if c =? 46 then
        match rev (strip_zeros (rev fp)) with
        | [] => ip'
        | fp' => ip' ++ 46 :: fp'
        end
      else raw
  | [] => ip'
  end.

Fixpoint match3 (m : e3) (g : g3) : bool :=
  match m, g with
  | X3Text raw, G3Text v => match chars3 raw with Some s => text_eqb s v | None => false end
  | X3Num raw, G3Num s => text_eqb (num_norm raw) s
  | X3True, G3True | X3False, G3False | X3Null, G3Null => true
  | X3Ref x, G3Ref y => text_eqb x y
  | X3Dot c l, G3Dot c' l' => match3 c c' && text_eqb l l'
  | X3Index c i, G3Index c' i' => match3 c c' && match3 i i'
  | X3Call f xs, G3Call f' ys =>
      match3 f f' &&
      (fix ms (l : list e3) (k : list g3) : bool :=
         match l, k with
         | [], [] => true
         | x :: l', y :: k' => match3 x y && ms l' k'
         | _, _ => false
         end) xs ys
  | X3Paren x, G3Paren y => match3 x y
  | X3Neg x, G3Neg y => match3 x y
  | X3Bin o x y, G3Bin o' x' y' => binop_eqb o o' && match3 x x' && match3 y y'
  | _, _ => false
  end.

(* unicode.IsPrint on the code points the generators use *)
Definition printable_approx (c : N) : bool :=
  if c <? 128 then (32 <=? c) && (c <? 127)
  else negb (((128 <=? c) && (c <=? 160)) || (c =? 173)).

(* unicode.IsLetter || unicode.IsNumber on the code points the generators use *)
Definition isln_approx (c : N) : bool := uletter c || udigit c.

Record lcase := {
  k_segs : list seg;
  k_ctx : list (text * text);
  k_default_to_self : bool;
  k_url_encode : bool;
  k_raw_dates : bool;
  k_out : text;
  k_err : bool;
  k_exprs : list (text * option g3)
}.

Definition ctx_of (pairs : list (text * text)) (n : text) : text :=
  match lookup n pairs with
  | Some v => v
  | None => [0; 63; 0]       (* a name the harness did not supply: shows up as a mismatch *)
  end.

Definition check_parse (p : text * option g3) : bool :=
  let (t, g) := p in
  match parse3 t, g with
  | None, None => true
  | Some m, Some g' => match3 m g'
  | _, _ => false
  end.

Definition check (k : lcase) : bool :=
  let (o, e) := migrate_template (ctx_of (k_ctx k)) (k_raw_dates k) (k_default_to_self k) (k_url_encode k)
                  printable_approx isln_approx lower_cp (k_segs k) in
  text_eqb o (k_out k) && Bool.eqb e (k_err k) && forallb check_parse (k_exprs k).

Fixpoint mismatches_from (i : N) (ks : list lcase) : list N :=
  match ks with
  | [] => []
  | k :: rest => (if check k then [] else [i]) ++ mismatches_from (i + 1) rest
  end.

Definition mismatches (ks : list lcase) : list N := mismatches_from 0 ks.
