(* ExLambda.v — model of the application of function VALUES in Excellent (C04).  No proofs here.

   Transcribed from excellent/tree.go (after f1d4764):
     AnonFunction.Evaluate   a closure over the scope; when called: NumArgsCheck(len(args)), then
                             anonDepth >= maxAnonFunctionDepth (100)    -> error value
                             anonCalls >= maxAnonFunctionCalls (100000) -> error value
                             anonCalls++, anonDepth++, body evaluated in a child scope, anonDepth-- on return
     FunctionCall.Evaluate   the function expression, then the arguments left to right, then the call;
                             an error in function position is returned, a non-function is an error
     ContextReference        lookup in the scope chain (innermost first)
   The counters live in the *Warnings that one evaluation threads through every Evaluate call: they are STATE, and
   the evaluator below is state passing.

   After e14c6f8 the same state holds the WORK BUDGET of the evaluation (maxEvaluationWork = 5000000):
     Warnings.spend(v)       charges the size of a value (types.SpendRenderSize: 1 + a third of the bits of a whole
                             number; 1 for a function) — to the operands and the result of an operator, and to every
                             argument and the result of a function call; a budget that is already negative, or that
                             the charge makes negative, turns the value into the error "evaluation takes too long"
     Warnings.spendWork(100) before every call (after the arguments); a call that the budget does not cover is that
                             error and is not made
   The function expression itself, lookups, literals and anonymous-function literals are not charged.  Error messages
   are not modelled, so an error value is charged 1 where the code charges 1 + the length of its message: the model
   runs out of budget no earlier than the code, and only for evaluations that pass error values around near the limit.

   An anonymous function can be applied to itself — ((f) => f(f))((f) => f(f)) — so evaluation is NOT structurally
   recursive: the model evaluator takes fuel, and [NoFuel] is a result distinct from every value.  The limits are
   arguments of the evaluator ([None] = no limit) so that both the repaired code (Some 100, Some 100000) and the code
   before the repair (None, None) are instances; proofs/ExLambdaProofs.v shows that with the limits the fuel
   (limit + 2) * (height + 2) always suffices, and that without them no fuel does.

   The fragment: integer literals, +, variables, anonymous functions of any arity, application of any expression to
   any arguments.  Everything else of Excellent is in model/ExEval.v (which has no anonymous functions). *)
From Coq Require Import ZArith NArith List Bool.
From Verif Require Import model.ExValues.
Import ListNotations.

Inductive lexpr :=
| LNum (z : Z)
| LVar (x : N)
| LAdd (a b : lexpr)
| LLam (params : list N) (body : lexpr)
| LApp (fn : lexpr) (args : largs)
with largs :=
| ANil
| ACons (e : lexpr) (rest : largs).

Inductive lval :=
| LVNum (z : Z)
| LVErr
| LVClo (params : list N) (body : lexpr) (env : lenv)
with lenv :=
| ENil
| ECons (x : N) (v : lval) (rest : lenv).

Record lstate := LState { calls : N; depth : nat; wleft : Z }.      (* work: what is left of the budget *)

Inductive lres := LRet (v : lval) | LNoFuel.

Fixpoint lookup (env : lenv) (x : N) : option lval :=
  match env with
  | ENil => None
  | ECons y v r => if N.eqb x y then Some v else lookup r x
  end.

(* the child scope: argsMap[x.Args[i]] = args[i] for i = 0, 1, ... (a repeated name keeps the LAST argument), over
   the scope the function was created in *)
Fixpoint bind (ps : list N) (vs : list lval) (env : lenv) : lenv :=
  match ps, vs with
  | p :: ps', v :: vs' => bind ps' vs' (ECons p v env)
  | _, _ => env
  end.

Definition is_lerr (v : lval) : bool := match v with LVErr => true | _ => false end.

Definition over (limit : option nat) (n : nat) : bool :=
  match limit with Some l => Nat.leb l n | None => false end.

Definition over_calls (limit : option N) (n : N) : bool :=
  match limit with Some l => N.leb l n | None => false end.

(* types.spendSize of a value of the fragment (not nested in anything) *)
Definition lcost (v : lval) : Z :=
  match v with
  | LVNum z => (1 + bit_len z / 3)%Z
  | _ => 1%Z
  end.

Definition function_call_work : Z := 100%Z.
Definition max_evaluation_work : Z := 5000000%Z.

Section Limits.

Variable max_depth : option nat.        (* maxAnonFunctionDepth *)
Variable max_calls : option N.          (* maxAnonFunctionCalls *)
Variable charged : bool.                (* whether there is a work budget (e14c6f8) *)

(* Warnings.spendWork(n): false if the budget is used up already or by this *)
Definition spend_work (n : Z) (st : lstate) : bool * lstate :=
  if negb charged then (true, st)
  else if (wleft st <? 0)%Z then (false, st)
  else let w := (wleft st - n)%Z in ((0 <=? w)%Z, LState (calls st) (depth st) w).

(* Warnings.spend(v) *)
Definition spend (v : lval) (st : lstate) : lval * lstate :=
  match spend_work (lcost v) st with
  | (true, st') => (v, st')
  | (false, st') => (LVErr, st')
  end.

Fixpoint leval (fuel : nat) (st : lstate) (env : lenv) (e : lexpr) : lres * lstate :=
  match fuel with
  | O => (LNoFuel, st)
  | S fuel' =>
    match e with
    | LNum z => (LRet (LVNum z), st)
    | LVar x => (LRet (match lookup env x with Some v => v | None => LVErr end), st)
    | LAdd a b =>
        match leval fuel' st env a with
        | (LRet va0, st1) =>
            let (va, st1') := spend va0 st1 in
            match leval fuel' st1' env b with
            | (LRet vb0, st2) =>
                let (vb, st2') := spend vb0 st2 in
                let (r, st3) := spend (match va, vb with LVNum x, LVNum y => LVNum (x + y) | _, _ => LVErr end) st2' in
                (LRet r, st3)
            | other => other
            end
        | other => other
        end
    | LLam ps body => (LRet (LVClo ps body env), st)
    | LApp fn args =>
        match leval fuel' st env fn with
        | (LRet fv, st1) =>
            if is_lerr fv then (LRet fv, st1) else
            match fv with
            | LVClo ps body cenv =>
                match leval_args fuel' st1 env args with
                | (Some vs, st2a) =>
                    let (covered, st2) := spend_work function_call_work st2a in
                    if negb covered then (LRet LVErr, st2)                                       (* evaluation takes too long *)
                    else
                      (* XFunction.Call; its result, an error included, is charged *)
                      match (if negb (Nat.eqb (length vs) (length ps)) then (LRet LVErr, st2)  (* NumArgsCheck *)
                             else if over max_depth (depth st2) then (LRet LVErr, st2)
                             else if over_calls max_calls (calls st2) then (LRet LVErr, st2)
                             else
                               match leval fuel' (LState (N.succ (calls st2)) (S (depth st2)) (wleft st2)) (bind ps vs cenv) body with
                               | (r, st3) => (r, LState (calls st3) (depth st2) (wleft st3))       (* defer anonDepth-- *)
                               end) with
                      | (LRet r0, st3) => let (r, st4) := spend r0 st3 in (LRet r, st4)
                      | other => other
                      end
                | (None, st2) => (LNoFuel, st2)
                end
            | _ => (LRet LVErr, st1)                                                             (* not a function *)
            end
        | other => other
        end
    end
  end
with leval_args (fuel : nat) (st : lstate) (env : lenv) (args : largs) : option (list lval) * lstate :=
  match fuel with
  | O => (None, st)
  | S fuel' =>
    match args with
    | ANil => (Some [], st)
    | ACons e rest =>
        match leval fuel' st env e with
        | (LRet v0, st1) =>
            let (v, st1') := spend v0 st1 in                                               (* spendArgument *)
            match leval_args fuel' st1' env rest with
            | (Some vs, st2) => (Some (v :: vs), st2)
            | other => other
            end
        | (LNoFuel, st1) => (None, st1)
        end
    end
  end.

End Limits.

(* the limits of the repaired code *)
Definition max_anon_function_depth : nat := 100.
Definition max_anon_function_calls : N := 100000%N.

Definition leval_limited := leval (Some max_anon_function_depth) (Some max_anon_function_calls) true.
Definition leval_unlimited := leval None None false.

(* the state an evaluation starts in *)
Definition lstate0 : lstate := LState 0 0 max_evaluation_work.

(* height of an expression (a bound on the recursion needed between two calls) *)
Fixpoint height (e : lexpr) : nat :=
  match e with
  | LNum _ | LVar _ => 1
  | LAdd a b => S (Nat.max (height a) (height b))
  | LLam _ body => S (height body)
  | LApp fn args => S (Nat.max (height fn) (height_args args))
  end
with height_args (a : largs) : nat :=
  match a with
  | ANil => 1
  | ACons e rest => S (Nat.max (height e) (height_args rest))
  end.

(* ((f) => f(f))((f) => f(f)) *)
Definition self_apply : lexpr := LLam [0%N] (LApp (LVar 0%N) (ACons (LVar 0%N) ANil)).
Definition omega : lexpr := LApp self_apply (ACons self_apply ANil).
