(* ExScannerCorr.v — comparison of model/ExScanner.v with the token lists the real
   excellent.NewXScanner produced (written by harness/cmd/c12).  No proofs. *)
From Coq Require Import List NArith Bool.
From Verif Require Import model.ExScanner.
Import ListNotations.
Open Scope N_scope.

Record scase := {
  k_tops : option (list text);      (* identifierTopLevels; None = nil *)
  k_unesc : bool;                   (* SetUnescapeBody *)
  k_in : text;
  k_ln : list rune;                 (* runes of the input with unicode.IsLetter || unicode.IsNumber *)
  k_low : list (rune * rune);       (* (c, unicode.ToLower c) for runes of the input that change *)
  (* observed on the implementation *)
  k_panic : bool;
  k_toks : list (N * text)          (* (XTokenType, token) up to EOF *)
}.

Definition mem_rune (l : list rune) (c : rune) : bool := existsb (N.eqb c) l.

Fixpoint assoc_rune (l : list (rune * rune)) (c : rune) : rune :=
  match l with
  | [] => c
  | (a, b) :: r => if a =? c then b else assoc_rune r c
  end.

Definition tt_code (t : toktype) : N :=
  match t with BODY => 0 | IDENTIFIER => 1 | EXPRESSION => 2 | EOF_T => 3 end.

Fixpoint toks_eqb (a : list (toktype * text)) (b : list (N * text)) : bool :=
  match a, b with
  | [], [] => true
  | (t, x) :: a', (n, y) :: b' => (tt_code t =? n) && text_eqb x y && toks_eqb a' b'
  | _, _ => false
  end.

(* the table facts every scanner theorem assumes, evaluated on the table of the case: NUL, '.' and '@' are neither
   letter nor number *)
Definition table_ok (isln : N -> bool) : bool := negb (isln 0) && negb (isln 46) && negb (isln 64).

Definition check (k : scase) : bool :=
  table_ok (mem_rune (k_ln k)) &&
  match scan_all (mem_rune (k_ln k)) (assoc_rune (k_low k)) (k_tops k) (k_unesc k) (k_in k) with
  | Ok toks => negb (k_panic k) && toks_eqb toks (k_toks k)
  | Panic => k_panic k
  | OutOfFuel => false
  end.

Fixpoint mismatches_from (i : N) (ks : list scase) : list N :=
  match ks with
  | [] => []
  | k :: rest => (if check k then [] else [i]) ++ mismatches_from (i + 1) rest
  end.

Definition mismatches (ks : list scase) : list N := mismatches_from 0 ks.
