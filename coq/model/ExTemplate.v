(* ExTemplate.v — Evaluator.Template of /repo/excellent/base.go for contexts whose properties are texts,
   composed from the scanner (ExScanner.v), the generated lexer (ExLexer.v), the generated parser with
   the visitor (ExParser.v) and the evaluation of the expression fragment

        text literal | null | NAME (context property) | ( e ) | e & e

   (tree.go: TextLiteral/NullLiteral/ContextReference/Parentheses/Concatenation.Evaluate, scope.go,
   types.XObject.Get, operators.Concatenate via textualBinary, types.ToXText).  Everything else is answered
   [FOutside]: the model does not describe it (the correspondence driver keeps its template stream inside
   the fragment, decided on the REAL parser's tree).  No proofs here.

   Evaluator.Template: allowed top levels = ctx.Properties() (sorted property names), unescapeBody = true;
   an IDENTIFIER or EXPRESSION token is evaluated by Evaluator.Expression = Parse + Evaluate; an error value
   (syntax error included) writes nothing and is collected; the final value is rendered by types.ToXText. *)
From Coq Require Import List NArith Bool.
From Verif Require Import lib.Quote model.ExSyntax model.ExLexer model.ExParser model.ExScanner.
Import ListNotations.
Open Scope N_scope.

Inductive fres :=
| FVal (v : ExSyntax.text)     (* a text value; nil (null) is represented by its ToXText rendering, the empty text:
                                  inside the fragment every consumer of a value applies ToXText first *)
| FErr                         (* an error value *)
| FOutside.                    (* outside the modelled fragment *)

Section Template.
Variable isln : N -> bool.     (* unicode.IsLetter || unicode.IsNumber  (scanner.go isNameChar) *)
Variable lower : N -> N.       (* unicode.ToLower *)

(* context: (property name, text value), sorted by name as ctx.Properties() returns them.
   XObject.Get: key lower-cased, compared with the lower-cased property names, smallest name wins. *)
Definition ctx_t := list (ExSyntax.text * ExSyntax.text).

Fixpoint ctx_get (ctx : ctx_t) (name : ExSyntax.text) : option ExSyntax.text :=
  match ctx with
  | [] => None
  | (k, v) :: r => if text_eqb (map lower k) (map lower name) then Some v else ctx_get r name
  end.

(* Evaluate.  Concatenation evaluates both operands, then textualBinary converts the first (an error
   there is returned), then the second. *)
Fixpoint eval_frag (ctx : ctx_t) (e : expr) : fres :=
  match e with
  | EText v => FVal v
  | ENull => FVal []
  | ECtxRef n =>
      (* scope.Get: the context object, then the root scope (functions: excluded by the driver) *)
      match ctx_get ctx n with Some v => FVal v | None => FErr end
  | EParen a => eval_frag ctx a
  | EBin OConcat a b =>
      match eval_frag ctx a, eval_frag ctx b with
      | FOutside, _ | _, FOutside => FOutside
      | FErr, _ | _, FErr => FErr
      | FVal x, FVal y => FVal (x ++ y)
      end
  | _ => FOutside
  end.

(* Evaluator.Expression on the source text of an expression *)
Definition eval_expression (ctx : ctx_t) (src : ExSyntax.text) : fres :=
  match lex src with
  | LOk ts =>
      match parse_tokens ts with
      | POk e => eval_frag ctx e
      | PSyntax => FErr                 (* Parse returned an error: Expression returns it as error value *)
      | POutside => FOutside
      | PFuelOut => FOutside
      end
  | LNoRule => FOutside
  | LFuel => FOutside
  end.

Definition expr_opt (ctx : ctx_t) (src : ExSyntax.text) : option ExSyntax.text :=
  match eval_expression ctx src with FVal v => Some v | _ => None end.

(* Evaluator.Template: (output, number of collected errors) *)
Definition template (ctx : ctx_t) (s : ExSyntax.text) : res (ExSyntax.text * nat) :=
  template_with isln lower (expr_opt ctx) (map fst ctx) s.

(* every IDENTIFIER / EXPRESSION token of the template lies in the modelled fragment *)
Definition in_fragment (ctx : ctx_t) (s : ExSyntax.text) : bool :=
  match s with
  | [] => true
  | _ =>
      match scan_all isln lower (Some (map fst ctx)) true s with
      | Ok toks =>
          forallb (fun '(ty, tok) =>
                     match ty with
                     | IDENTIFIER | EXPRESSION =>
                         match eval_expression ctx tok with FOutside => false | _ => true end
                     | _ => true
                     end) toks
      | _ => false
      end
  end.

End Template.
