(* MigrateSites.v -- the rejection clause of C16 as a finite obligation over gen/AssertSites.v: every expression in
   flows/definition/migrations, flows/definition/legacy and utils/jsonpath that can panic on unexpected data
   (type assertion, index, slice) is of a form that cannot fail, or is one of the sites accepted below, each with the
   reason it cannot fail.  A site that is new, or whose form got weaker, is not covered and makes
   [assert_sites_total] false.  No proofs here.

   The classification of forms is done syntactically by translators/cmd/assertsites (trusted, conservative: anything
   it does not recognise is FBare / FUnguarded).  What this obligation does NOT cover: panics inside callees outside
   the three packages (encoding/json, the readers in flows/actions, flows/routers -- F19a was there), nil-pointer
   dereferences (F19b was one), integer conversion, explicit panic() calls.  Those are exercised by the malformed
   stream of harness/cmd/c16 only. *)
From Coq Require Import List NArith Bool String.
From Verif Require Import gen.AssertSites.
Import ListNotations.
Local Open Scope string_scope.

Definition form_safe (f : site_form) : bool :=
  match f with
  | FCommaOk | FTypeSwitch | FCaseGuarded | FRangeIndex | FLenLoop | FConstGuarded | FFromIndex => true
  | FBare | FUnguarded => false
  end.

(* file, function, expression, number of occurrences accepted, why it cannot fail *)
Definition accepted : list (string * string * string * N * string) := [
  ("definition.go", "*LabelReference.UnmarshalJSON", "data[0]", 1%N,
   "encoding/json hands UnmarshalJSON one complete JSON value: never empty");
  ("definition.go", "*GroupReference.UnmarshalJSON", "data[0]", 1%N,
   "encoding/json hands UnmarshalJSON one complete JSON value: never empty");
  ("utils.go", "*Translations.UnmarshalJSON", "data[0]", 1%N,
   "encoding/json hands UnmarshalJSON one complete JSON value: never empty");
  ("utils.go", "*StringOrNumber.UnmarshalJSON", "data[0]", 1%N,
   "encoding/json hands UnmarshalJSON one complete JSON value: never empty");
  ("utils.go", "*StringOrNumber.UnmarshalJSON", "data[1 : len(data)-1]", 1%N,
   "only when data[0] is a quote: a complete JSON string has both quotes, so len(data) >= 2");
  ("definition.go", "migrateRule", "match[2]", 1%N,
   "under match != nil: FindStringSubmatch returns nil or one entry per group of relativeDateTest, which has two groups");
  ("definition.go", "migrateRule", "match[1]", 1%N,
   "under match != nil: FindStringSubmatch returns nil or one entry per group of relativeDateTest, which has two groups");
  ("definition.go", "migrateNodes", "nodes[i]", 1%N,
   "nodes is made with len(f.ActionSets)+len(f.RuleSets); i ranges over f.ActionSets");
  ("definition.go", "migrateNodes", "nodes[len(f.ActionSets)+i]", 1%N,
   "nodes is made with len(f.ActionSets)+len(f.RuleSets); i ranges over f.RuleSets");
  ("ui.go", "NodeUIConfig.AddCaseConfig", "cases.(map[uuids.UUID]any)", 1%N,
   "the cases member is only ever written by this function, with that type; the map is built by the migration, not read from input");
  ("v13.go", "migratedExit.UUID", "e[""uuid""].(uuids.UUID)", 1%N, "maps built by newExit with a uuids.UUID under uuid; not input JSON");
  ("v13.go", "migratedNode.UUID", "n[""uuid""].(uuids.UUID)", 1%N, "maps built by newNode with a uuids.UUID under uuid; not input JSON");
  ("v13.go", "migratedCategory.UUID", "c[""uuid""].(uuids.UUID)", 1%N, "maps built by newCategory with a uuids.UUID under uuid; not input JSON");
  ("v13.go", "migratedCase.UUID", "c[""uuid""].(uuids.UUID)", 1%N, "maps built by newCase with a uuids.UUID under uuid; not input JSON");
  ("v13.go", "migratedAction.UUID", "a[""uuid""].(uuids.UUID)", 1%N, "maps built by the newXAction constructors with a uuids.UUID under uuid; not input JSON");
  ("path.go", "parsePath", "runes[0]", 1%N, "right operand of len(runes) == 0 || ...");
  ("path.go", "parsePath", "runes[i]", 8%N,
   "the loop leaves when i == len(runes) before looking at runes[i]; the inner loops test i < len(runes) first; i only grows by one after such a test");
  ("path.go", "visit", "path[0]", 1%N,
   "paths are the template catalog's (gen/MigrationTable.v), each with at least one step: obligation catalog_paths_nonempty; the recursion only continues while len(rem) > 0");
  ("path.go", "visit", "path[1:]", 1%N, "after path[0]");
  ("templates.go", "rewriteOrphanTranslations", "path[:lastDot]", 1%N,
   "paths are the template catalog's (gen/MigrationTable.v), each with a dot: obligation catalog_paths_dotted, so lastDot >= 0");
  ("templates.go", "rewriteOrphanTranslations", "path[lastDot+1:]", 1%N,
   "lastDot is an index into path (obligation catalog_paths_dotted), so lastDot+1 <= len(path)")
].

Definition site_accepted (x : site) : bool :=
  existsb (fun a : string * string * string * N * string =>
             let '(file, fn, expr, n, _) := a in
             String.eqb file (s_file x) && String.eqb fn (s_func x) && String.eqb expr (s_expr x) && N.leb (s_occ x) n)
          accepted.

Definition site_total (x : site) : bool := form_safe (s_form x) || site_accepted x.

Definition assert_sites_total : bool := forallb site_total assert_sites.

(* in the 13.x migrations themselves nothing needs a review: every type assertion is comma-ok or a type switch *)
Definition migrations_asserts_checked : bool :=
  forallb (fun x => negb (String.eqb (s_pkg x) "flows/definition/migrations")
                    || match s_kind x with KAssert => form_safe (s_form x) | _ => true end) assert_sites.

(* the table is not empty and covers the three packages *)
Definition sites_cover_packages : bool :=
  forallb (fun p => existsb (fun x => String.eqb (s_pkg x) p) assert_sites)
          ["flows/definition/migrations"; "flows/definition/legacy"; "utils/jsonpath"].
