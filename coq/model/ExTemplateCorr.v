(* ExTemplateCorr.v — comparison of model/ExTemplate.v (scanner + lexer + parser + visitor + fragment
   evaluation) with what the real Evaluator.Template returned (written by harness/cmd/c12).  No proofs. *)
From Coq Require Import List NArith Bool.
From Verif Require Import model.ExSyntax model.ExScanner model.ExScannerCorr model.ExTemplate.
Import ListNotations.
Open Scope N_scope.

Record tcase := {
  t_ctx : list (ExSyntax.text * ExSyntax.text);  (* context properties (all texts), sorted by name *)
  t_in : ExSyntax.text;                          (* the template *)
  t_ln : list N;                                 (* runes of the input with unicode.IsLetter || unicode.IsNumber *)
  t_low : list (N * N);                          (* (c, unicode.ToLower c) for runes of input and keys that change *)
  (* observed on the implementation *)
  t_out : ExSyntax.text;                         (* output string *)
  t_err : bool                                   (* err != nil *)
}.

Definition check (k : tcase) : bool :=
  let isln := mem_rune (t_ln k) in
  let lower := assoc_rune (t_low k) in
  negb (isln 0) && negb (isln 46) && negb (isln 64) &&   (* the table facts the theorems assume *)
  in_fragment isln lower (t_ctx k) (t_in k) &&
  match template isln lower (t_ctx k) (t_in k) with
  | Ok (out, errs) => text_eqb out (t_out k) && Bool.eqb (negb (Nat.eqb errs 0)) (t_err k)
  | _ => false
  end.

Fixpoint mismatches_from (i : N) (ks : list tcase) : list N :=
  match ks with
  | [] => []
  | k :: rest => (if check k then [] else [i]) ++ mismatches_from (i + 1) rest
  end.

Definition mismatches (ks : list tcase) : list N := mismatches_from 0 ks.
