package excellent_test

import (
	"context"
	"fmt"
	"os"
	"os/exec"
	"strings"
	"testing"
	"time"

	"github.com/nyaruka/goflow/envs"
	"github.com/nyaruka/goflow/excellent"
	"github.com/nyaruka/goflow/excellent/types"
)

// The generated parser is recursive: every level of nesting in an expression takes about 2.5KB of goroutine stack,
// so an expression nested a few hundred thousand levels deep (a template of about 1MB) exhausts the 1GB a goroutine
// stack may grow to and the Go runtime ends the process ("fatal error: stack overflow", which recover() cannot catch).
//
// The template is evaluated in a child process because on the unchanged tree the evaluation takes the process down.
func TestHuntDeeplyNestedExpression(t *testing.T) {
	const depth = 600000
	template := "@(" + strings.Repeat("(", depth) + "1" + strings.Repeat(")", depth) + ")"

	if os.Getenv("HUNT_C04_CHILD") != "" {
		env := envs.NewBuilder().Build()
		ctx := types.NewXObject(map[string]types.XValue{})

		val, _, err := excellent.NewEvaluator().Template(env, ctx, template, nil)
		fmt.Printf("returned value=%.40q err=%.80v\n", val, err)
		return
	}

	ctx, cancel := context.WithTimeout(context.Background(), 300*time.Second)
	defer cancel()
	cmd := exec.CommandContext(ctx, os.Args[0], "-test.run=^TestHuntDeeplyNestedExpression$")
	cmd.Env = append(os.Environ(), "HUNT_C04_CHILD=1")
	out, err := cmd.CombinedOutput()

	if len(out) > 600 {
		out = out[:600]
	}
	if err != nil {
		t.Errorf("evaluating a template of %d characters, 1 inside %d pairs of parentheses, ended the process: %v (C04: never panics ... never as a crash or hang of the host)\n%s", len(template), depth, err, out)
	} else {
		t.Logf("%s", out)
	}
}
