package excellent_test

import (
	"testing"

	"github.com/nyaruka/goflow/envs"
	"github.com/nyaruka/goflow/excellent"
	"github.com/nyaruka/goflow/excellent/types"
)

// envs.ReadEnvironment accepts any 3 character language and any 2 character country. When the two don't make a BCP47
// tag that golang.org/x/text knows, every function that formats a date, datetime or time panics - with or without
// a format argument, because the lookup of the month and day names happens before the layout is looked at.
func TestHuntFormatDateWithNonBCP47Locale(t *testing.T) {
	envJSONs := []string{
		`{"date_format": "DD-MM-YYYY", "time_format": "tt:mm", "timezone": "UTC", "allowed_languages": ["xxx"], "default_country": "US"}`, // well-formed but unknown
		`{"date_format": "DD-MM-YYYY", "time_format": "tt:mm", "timezone": "UTC", "allowed_languages": ["eng"], "default_country": "12"}`,  // not well-formed
	}
	templates := []string{
		`@(format_date("2020-05-17"))`,
		`@(format_datetime("2020-05-17T14:00:00Z", "YYYY-MM-DD tt:mm"))`,
		`@(format_time("14:00"))`,
		`@(format(today()))`,
	}

	for _, envJSON := range envJSONs {
		env, err := envs.ReadEnvironment([]byte(envJSON))
		if err != nil {
			// rejecting such an environment when it is read would be a fine way to hold the property too
			t.Logf("environment %s rejected: %s", envJSON, err)
			continue
		}

		for _, template := range templates {
			func() {
				defer func() {
					if r := recover(); r != nil {
						t.Errorf("evaluating %s panicked: %v (C04: never panics; failures are reported as error values)\n  environment (accepted by envs.ReadEnvironment): %s", template, r, envJSON)
					}
				}()

				val, _, err := excellent.NewEvaluator().Template(env, types.NewXObject(map[string]types.XValue{}), template, nil)
				t.Logf("%s => %q, %v", template, val, err)
			}()
		}
	}
}
