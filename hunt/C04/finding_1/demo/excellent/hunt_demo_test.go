package excellent_test

import (
	"context"
	"fmt"
	"os"
	"os/exec"
	"testing"
	"time"

	"github.com/nyaruka/goflow/envs"
	"github.com/nyaruka/goflow/excellent"
	"github.com/nyaruka/goflow/excellent/types"
)

// Anonymous functions can be passed to themselves, so evaluating a short template can recurse without end (the Go
// runtime then ends the process with "fatal error: stack overflow", which recover() cannot catch) or make a number of
// calls that has nothing to do with the size of the template, the context or the result.
//
// Each template is evaluated in a child process, because on the unchanged tree the evaluation takes the process down.
var huntTemplates = map[string]string{
	// self application, recurses forever
	"overflow": `@(((f) => f(f))((f) => f(f)))`,

	// t is "apply twice"; t(t)(t)(t)(t) applies its argument 2^65536 times, the stack stays shallow
	"hang": `@(((t) => t(t)(t)(t)(t)((x) => x + 1)(0))((f) => (x) => f(f(x))))`,
}

func TestHuntAnonFunctionSelfApplication(t *testing.T) {
	if which := os.Getenv("HUNT_C04_CHILD"); which != "" {
		env := envs.NewBuilder().Build()
		ctx := types.NewXObject(map[string]types.XValue{})

		// the ordinary entry point for any template in a flow (message text, router operand, webhook URL ...)
		val, _, err := excellent.NewEvaluator().Template(env, ctx, huntTemplates[which], nil)
		fmt.Printf("returned value=%.40q err=%.80v\n", val, err)
		return
	}

	for which, template := range huntTemplates {
		ctx, cancel := context.WithTimeout(context.Background(), 60*time.Second)
		cmd := exec.CommandContext(ctx, os.Args[0], "-test.run=^TestHuntAnonFunctionSelfApplication$")
		cmd.Env = append(os.Environ(), "HUNT_C04_CHILD="+which)
		out, err := cmd.CombinedOutput()
		timedOut := ctx.Err() != nil
		cancel()

		if len(out) > 600 {
			out = out[:600]
		}
		if timedOut {
			t.Errorf("evaluating %s had not returned after 60s (C04: always returns, in time bounded by the size of the template, the context and the result)", template)
		} else if err != nil {
			t.Errorf("evaluating %s ended the process: %v (C04: failures are reported as error values, never as a crash of the host)\n%s", template, err, out)
		} else {
			t.Logf("%s: %s", template, out)
		}
	}
}
