package excellent_test

import (
	"context"
	"fmt"
	"os"
	"os/exec"
	"testing"
	"time"

	"github.com/nyaruka/goflow/envs"
	"github.com/nyaruka/goflow/excellent"
	"github.com/nyaruka/goflow/excellent/types"
)

// A whole number raised to a large positive power is calculated in full by repeated squaring, whatever its size: the
// value is out of any usable range (2 ^ 99999999999 has 30 thousand million digits) but no error is returned, the
// evaluation squares ever larger numbers until the process runs out of memory.
//
// Each template is evaluated in a child process because on the unchanged tree the evaluation never comes back.
var huntPowerTemplates = map[string]string{
	"literal":    `@(2 ^ 99999999999)`,
	"comparison": `@(7 ^ 999999999 > 1)`,
	"fractional": `@(9999999999999999999999999999999999999999999999999999999999999999 ^ 9999999999999999999999999999999999999999999999999999999999999.5)`,
}

func TestHuntHugePositivePower(t *testing.T) {
	if which := os.Getenv("HUNT_C04_CHILD"); which != "" {
		env := envs.NewBuilder().Build()
		ctx := types.NewXObject(map[string]types.XValue{})

		val, _, err := excellent.NewEvaluator().Template(env, ctx, huntPowerTemplates[which], nil)
		fmt.Printf("returned value=%.40q err=%.80v\n", val, err)
		return
	}

	for which, template := range huntPowerTemplates {
		ctx, cancel := context.WithTimeout(context.Background(), 30*time.Second)
		cmd := exec.CommandContext(ctx, os.Args[0], "-test.run=^TestHuntHugePositivePower$")
		cmd.Env = append(os.Environ(), "HUNT_C04_CHILD="+which)
		out, err := cmd.CombinedOutput()
		timedOut := ctx.Err() != nil
		cancel()

		if len(out) > 600 {
			out = out[:600]
		}
		if timedOut {
			t.Errorf("evaluating %s had not returned after 30s (C04: out-of-range values are reported as error values, never as a crash or hang of the host)", template)
		} else if err != nil {
			t.Errorf("evaluating %s ended the process: %v (C04: out-of-range values are reported as error values, never as a crash or hang of the host)\n%s", template, err, out)
		} else {
			t.Logf("%s: %s", template, out)
		}
	}
}
