package flows_test

import (
	"strings"
	"testing"

	"github.com/nyaruka/gocommon/jsonx"
	"github.com/nyaruka/goflow/assets"
	"github.com/nyaruka/goflow/assets/static"
	"github.com/nyaruka/goflow/envs"
	"github.com/nyaruka/goflow/flows"
	"github.com/nyaruka/goflow/flows/engine"
	"github.com/nyaruka/goflow/flows/events"
	"github.com/nyaruka/goflow/flows/modifiers"
	"github.com/stretchr/testify/assert"
	"github.com/stretchr/testify/require"
)

// C03: clearing the preferred channel (ChannelModifier with no channel, i.e. set_contact_channel without a channel)
// rebuilds every URN with urns.NewFromParts, which normalizes and validates, and ContactURN.SetChannel ignores its
// error: a stored URN that is valid as it is but not once normalized is replaced by the empty URN. The change is
// announced as contact_urns_changed [""], an event that fails its own validation, and the contact can't be read back.
func TestHuntC03ClearChannelDestroysURN(t *testing.T) {
	env := envs.NewBuilder().Build()
	src, err := static.NewSource([]byte(`{}`))
	require.NoError(t, err)
	sa, err := engine.NewSessionAssets(env, src, nil)
	require.NoError(t, err)
	eng := engine.NewBuilder().Build()

	for _, urn := range []string{
		"mailto:" + strings.Repeat("Ⱥ", 126) + "@b", // 254 bytes; lower-cased (U+023A -> U+2C65) it is 380 bytes, over the limit of 255
		"ext: ",                                      // path is a space; trimmed it is empty
	} {
		contactJSON := jsonx.MustMarshal(map[string]any{"uuid": "5d76d86b-3bb9-4d5a-b822-c9d86f5d8e4f", "name": "Bob", "status": "active", "created_on": "2018-06-20T11:40:30Z", "urns": []string{urn}})
		contact, err := flows.ReadContact(sa, contactJSON, assets.PanicOnMissing)
		require.NoError(t, err, "the contact is readable, its URN passes validation")

		var evts []flows.Event
		modified := modifiers.Apply(eng, env, sa, contact, modifiers.NewChannel(nil), func(e flows.Event) { evts = append(evts, e) })
		t.Logf("modified=%v urns=%s", modified, jsonx.MustMarshal(contact.URNs().RawURNs()))

		// the contact had no channel affinity to clear, so nothing should have changed..
		assert.Equal(t, urn, string(contact.URNs()[0].URN()), "the contact's URN was replaced")

		// ..and whatever was announced has to be something a host can read and apply
		for _, e := range evts {
			_, err := events.ReadEvent(jsonx.MustMarshal(e))
			assert.NoError(t, err, "event %s can't be read", jsonx.MustMarshal(e))
		}
		_, err = flows.ReadContact(sa, jsonx.MustMarshal(contact), assets.IgnoreMissing)
		assert.NoError(t, err, "the contact afterwards can't be read")
	}
}
