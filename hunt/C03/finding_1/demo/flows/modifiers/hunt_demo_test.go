package modifiers_test

import (
	"encoding/json"
	"testing"
	"time"

	"github.com/nyaruka/gocommon/dates"
	"github.com/nyaruka/gocommon/jsonx"
	"github.com/nyaruka/goflow/assets"
	"github.com/nyaruka/goflow/assets/static"
	"github.com/nyaruka/goflow/envs"
	"github.com/nyaruka/goflow/flows"
	"github.com/nyaruka/goflow/flows/engine"
	"github.com/nyaruka/goflow/flows/events"
	"github.com/nyaruka/goflow/flows/modifiers"
	"github.com/stretchr/testify/assert"
	"github.com/stretchr/testify/require"
)

// C03: a field value whose datetime has digits below the microsecond is kept in the contact with nanoseconds but
// announced (and marshalled) with microseconds. The event therefore does not reproduce the contact, and a host that
// persisted the contact from the event gets "modified" + the identical event again on every further application.
func TestHuntC03FieldDatetimeSubMicrosecond(t *testing.T) {
	// the clock is fixed, so this is not the known moving-clock case (F3e)
	dates.SetNowFunc(dates.NewFixedNow(time.Date(2018, 10, 18, 14, 20, 30, 0, time.UTC)))
	defer dates.SetNowFunc(time.Now)

	env := envs.NewBuilder().Build()
	src, err := static.NewSource([]byte(`{"fields": [{"uuid": "d66a7823-eada-40e5-9a3a-57239d4690bf", "key": "joined", "name": "Joined", "type": "datetime"}]}`))
	require.NoError(t, err)
	sa, err := engine.NewSessionAssets(env, src, nil)
	require.NoError(t, err)
	eng := engine.NewBuilder().Build()
	joined := sa.Fields().Get("joined")

	beforeJSON := []byte(`{"uuid": "5d76d86b-3bb9-4d5a-b822-c9d86f5d8e4f", "name": "Bob", "status": "active", "created_on": "2018-06-20T11:40:30Z"}`)
	contact, err := flows.ReadContact(sa, beforeJSON, assets.PanicOnMissing)
	require.NoError(t, err)

	// e.g. a timestamp as Go/Java services print it (RFC3339Nano), coming from a webhook or a message
	mod := modifiers.NewField(joined, "2020-01-01T10:00:00.123456789Z")

	var evts []flows.Event
	require.True(t, modifiers.Apply(eng, env, sa, contact, mod, func(e flows.Event) { evts = append(evts, e) }))
	require.Len(t, evts, 1)
	changed := evts[0].(*events.ContactFieldChangedEvent)

	// --- replay: what a host has is the contact before and the event, as JSON
	var before map[string]any
	jsonx.MustUnmarshal(beforeJSON, &before)
	var evtAsMap map[string]any
	jsonx.MustUnmarshal(jsonx.MustMarshal(changed), &evtAsMap)
	before["fields"] = map[string]any{"joined": evtAsMap["value"]}
	replayed, err := flows.ReadContact(sa, jsonx.MustMarshal(before), assets.PanicOnMissing)
	require.NoError(t, err)

	// clause 1: replaying the events over the contact as it was reproduces exactly the contact afterwards
	assert.True(t, contact.Fields().Get(joined).Equals(replayed.Fields().Get(joined)),
		"replayed field value %s differs from the contact's value %s",
		replayed.Fields().Get(joined).Datetime.Native().Format(time.RFC3339Nano),
		contact.Fields().Get(joined).Datetime.Native().Format(time.RFC3339Nano))

	// clause 2: applying the same modifier again to the contact the host persisted changes and reports nothing
	replayedBefore := jsonx.MustMarshal(replayed)
	var evts2 []flows.Event
	modified2 := modifiers.Apply(eng, env, sa, replayed, mod, func(e flows.Event) { evts2 = append(evts2, e) })
	replayedAfter := jsonx.MustMarshal(replayed)

	assert.JSONEq(t, string(replayedBefore), string(replayedAfter), "the marshalled contact is identical before and after..")
	assert.False(t, modified2, "..but the modifier reports modified")
	assert.Empty(t, evts2, "..and emits %s", mustJSON(evts2))
}

func mustJSON(v any) string {
	b, _ := json.Marshal(v)
	return string(b)
}
