package actions_test

import (
	"strings"
	"testing"

	"github.com/nyaruka/gocommon/jsonx"
	"github.com/nyaruka/goflow/assets"
	"github.com/nyaruka/goflow/flows"
	"github.com/nyaruka/goflow/flows/events"
	"github.com/nyaruka/goflow/test"
	"github.com/stretchr/testify/assert"
	"github.com/stretchr/testify/require"
)

const huntNumberAssets = `{
	"fields": [
		{"uuid": "f1b5aea6-6586-41c7-9020-1a6326cc6565", "key": "weight", "name": "Weight", "type": "number"}
	],
	"flows": [
		{
			"uuid": "50c3706e-fedb-42c0-8eab-dda3335714b7", "name": "Weight", "spec_version": "13.1.0", "language": "eng", "type": "messaging",
			"nodes": [
				{
					"uuid": "72a1f5df-49f9-45df-94c9-d86f7ea064e5",
					"actions": [
						{"uuid": "ad154980-7bf7-4ab8-8728-545fd6378912", "type": "set_contact_field", "field": {"key": "weight", "name": "Weight"}, "value": "@input.text"}
					],
					"exits": [{"uuid": "d7a36118-0a38-4b35-a7e4-ae89042f0d3c", "destination_uuid": "3dcccbb4-d29c-41dd-a01f-16d814c9ab82"}]
				},
				{
					"uuid": "3dcccbb4-d29c-41dd-a01f-16d814c9ab82",
					"router": {
						"type": "switch", "wait": {"type": "msg"}, "operand": "@input.text", "result_name": "Answer",
						"categories": [{"uuid": "37d8813f-1402-4ad2-9cc2-e9054a96525b", "name": "All Responses", "exit_uuid": "100f2d68-2481-4137-a0a3-177620ba3c5f"}],
						"default_category_uuid": "37d8813f-1402-4ad2-9cc2-e9054a96525b", "cases": []
					},
					"exits": [{"uuid": "100f2d68-2481-4137-a0a3-177620ba3c5f"}]
				}
			]
		}
	]
}`

// C03: the field modifier cuts the text of a value to MaxFieldChars but parses its number from the uncut text. A
// decimal with more than 1000 fractional digits is stored and announced, but neither the contact_field_changed event nor
// the contact nor the session can be read back (types.XNumber.UnmarshalJSON: "number value out of range"), so no host
// can reproduce the contact from the event and the session can never be resumed.
func TestHuntC03FieldNumberBeyondReadableRange(t *testing.T) {
	text := "0." + strings.Repeat("0", 1000) + "1" // 1003 characters, a long but legal message

	sa, session, sprint, err := test.NewSessionBuilder().
		WithAssetsJSON([]byte(huntNumberAssets)).
		WithContact("5d76d86b-3bb9-4d5a-b822-c9d86f5d8e4f", 123, "Bob", "eng", "tel:+12065551212").
		WithTriggerMsg(text).
		Build()
	require.NoError(t, err)
	require.Equal(t, flows.SessionStatusWaiting, session.Status())

	for _, e := range sprint.Events() {
		if ce, ok := e.(*events.ContactFieldChangedEvent); ok {
			t.Logf("announced value: text of %d chars, number set: %v", len(ce.Value.Text.Native()), ce.Value.Number != nil)

			// replaying the event starts with reading it
			_, err := events.ReadEvent(jsonx.MustMarshal(e))
			assert.NoError(t, err, "the contact_field_changed event can't be read")
		}
	}

	// the contact as the engine hands it back can't be read
	_, err = flows.ReadContact(sa, jsonx.MustMarshal(session.Contact()), assets.IgnoreMissing)
	assert.NoError(t, err, "the contact afterwards can't be read")

	// .. and neither can the session, so the wait can never be resumed
	_, err = session.Engine().ReadSession(sa, jsonx.MustMarshal(session), assets.IgnoreMissing)
	assert.NoError(t, err, "the session can't be read")
}
