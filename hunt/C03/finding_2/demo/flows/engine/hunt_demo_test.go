package engine_test

import (
	"testing"

	"github.com/nyaruka/gocommon/jsonx"
	"github.com/nyaruka/gocommon/urns"
	"github.com/nyaruka/goflow/assets"
	"github.com/nyaruka/goflow/flows"
	"github.com/nyaruka/goflow/flows/events"
	"github.com/nyaruka/goflow/test"
	"github.com/stretchr/testify/assert"
	"github.com/stretchr/testify/require"
)

const huntURNAssets = `{
	"channels": [
		{"uuid": "57f1078f-88aa-46f4-a59a-948a5739c03d", "name": "Android", "address": "+17036975131", "schemes": ["tel"], "roles": ["send", "receive"]}
	],
	"flows": [
		{
			"uuid": "50c3706e-fedb-42c0-8eab-dda3335714b7", "name": "Register phone", "spec_version": "13.1.0", "language": "eng", "type": "messaging",
			"nodes": [
				{
					"uuid": "72a1f5df-49f9-45df-94c9-d86f7ea064e5",
					"actions": [
						{"uuid": "ad154980-7bf7-4ab8-8728-545fd6378912", "type": "add_contact_urn", "scheme": "tel", "path": "@input.text"}
					],
					"exits": [{"uuid": "d7a36118-0a38-4b35-a7e4-ae89042f0d3c", "destination_uuid": "3dcccbb4-d29c-41dd-a01f-16d814c9ab82"}]
				},
				{
					"uuid": "3dcccbb4-d29c-41dd-a01f-16d814c9ab82",
					"router": {
						"type": "switch", "wait": {"type": "msg"}, "operand": "@input.text", "result_name": "Answer",
						"categories": [{"uuid": "37d8813f-1402-4ad2-9cc2-e9054a96525b", "name": "All Responses", "exit_uuid": "100f2d68-2481-4137-a0a3-177620ba3c5f"}],
						"default_category_uuid": "37d8813f-1402-4ad2-9cc2-e9054a96525b", "cases": []
					},
					"exits": [{"uuid": "100f2d68-2481-4137-a0a3-177620ba3c5f"}]
				}
			]
		}
	]
}`

// C03: add_contact_urn / the URNs modifier accept a URN whose query part does not parse. The change is announced in a
// contact_urns_changed event, but the announced URN list cannot be turned into a contact by goflow's own readers
// (flows.ReadURNList, flows.ReadContact, Engine.ReadSession), so no host can reproduce the contact from the event,
// and the session the engine just handed back can never be resumed.
func TestHuntC03URNWithUnparsableQuery(t *testing.T) {
	// the contact answers "what is your number?" with a number, a question mark and a smiley
	sa, session, sprint, err := test.NewSessionBuilder().
		WithAssetsJSON([]byte(huntURNAssets)).
		WithContact("5d76d86b-3bb9-4d5a-b822-c9d86f5d8e4f", 123, "Bob", "eng", "tel:+12065551212").
		WithTriggerMsg("0788123456? ;)").
		Build()
	require.NoError(t, err)
	require.Equal(t, flows.SessionStatusWaiting, session.Status())

	var announced []urns.URN
	for _, e := range sprint.Events() {
		if ce, ok := e.(*events.ContactURNsChangedEvent); ok {
			announced = ce.URNs
		}
	}
	// if the engine changed the contact's URNs and said so (it may also refuse the URN with an error event), then
	// replaying contact_urns_changed means building the contact's URN list from the event
	if announced != nil {
		t.Logf("announced URNs: %v", announced)

		_, err = flows.ReadURNList(sa, announced, assets.IgnoreMissing)
		assert.NoError(t, err, "the announced URN list can't be read")
	}

	// the contact as the engine hands it back can't be read either
	_, err = flows.ReadContact(sa, jsonx.MustMarshal(session.Contact()), assets.IgnoreMissing)
	assert.NoError(t, err, "the contact afterwards can't be read")

	// .. and neither can the session, so the wait can never be resumed
	_, err = session.Engine().ReadSession(sa, jsonx.MustMarshal(session), assets.IgnoreMissing)
	assert.NoError(t, err, "the session can't be read")
}
