package modifiers_test

import (
	"testing"

	"github.com/nyaruka/gocommon/jsonx"
	"github.com/nyaruka/gocommon/urns"
	"github.com/nyaruka/goflow/assets"
	"github.com/nyaruka/goflow/assets/static"
	"github.com/nyaruka/goflow/envs"
	"github.com/nyaruka/goflow/flows"
	"github.com/nyaruka/goflow/flows/engine"
	"github.com/nyaruka/goflow/flows/modifiers"
	"github.com/stretchr/testify/assert"
	"github.com/stretchr/testify/require"
)

// C03: appending a URN the contact already has must change and report nothing. For a URN whose path contains a literal
// "%23" (written "%2523" in the URN), whether it does depends on the iteration order of a Go map
// (gocommon/urns/parser.go unescape), so the same modifier on the same contact sometimes appends a duplicate.
func TestHuntC03AppendPresentURNWithEscapedPercent(t *testing.T) {
	env := envs.NewBuilder().Build()
	src, err := static.NewSource([]byte(`{}`))
	require.NoError(t, err)
	sa, err := engine.NewSessionAssets(env, src, nil)
	require.NoError(t, err)
	eng := engine.NewBuilder().Build()

	const urn = urns.URN("ext:a%2523b") // external id "a%23b"
	require.NoError(t, urn.Validate())

	changed := 0
	lastAfter := ""
	for i := 0; i < 100; i++ {
		contact, err := flows.ReadContact(sa, []byte(`{"uuid": "5d76d86b-3bb9-4d5a-b822-c9d86f5d8e4f", "name": "Bob", "status": "active", "created_on": "2018-06-20T11:40:30Z", "urns": ["ext:a%2523b"]}`), assets.PanicOnMissing)
		require.NoError(t, err)

		var evts []flows.Event
		if modifiers.Apply(eng, env, sa, contact, modifiers.NewURNs([]urns.URN{urn}, modifiers.URNsAppend), func(e flows.Event) { evts = append(evts, e) }) {
			changed++
			lastAfter = string(jsonx.MustMarshal(contact.URNs().RawURNs()))
		}
	}

	assert.Equal(t, 0, changed, "appending the URN the contact already has changed the contact in %d of 100 applications, e.g. to %s", changed, lastAfter)
}
