package actions_test

import (
	"testing"

	"github.com/nyaruka/gocommon/i18n"
	"github.com/nyaruka/goflow/envs"
	"github.com/nyaruka/goflow/flows"
	"github.com/nyaruka/goflow/flows/events"
	"github.com/nyaruka/goflow/test"
	"github.com/stretchr/testify/assert"
	"github.com/stretchr/testify/require"
)

// a flow whose base language is Spanish that sends a templated message. The template has an English (listed first)
// and a Spanish translation for the contact's channel.
const huntF1Assets = `{
	"channels": [
		{"uuid": "57f1078f-88aa-46f4-a59a-948a5739c03d", "name": "WhatsApp", "address": "+17036975131", "schemes": ["tel"], "roles": ["send", "receive"]}
	],
	"templates": [
		{
			"uuid": "5722e1fd-fe32-4e74-ac78-3cf41a6adb7e",
			"name": "affirmation",
			"translations": [
				{
					"channel": {"uuid": "57f1078f-88aa-46f4-a59a-948a5739c03d", "name": "WhatsApp"},
					"locale": "eng-US",
					"components": [{"name": "body", "type": "body/text", "content": "Hi {{1}}, you are great", "variables": {"1": 0}}],
					"variables": [{"type": "text"}]
				},
				{
					"channel": {"uuid": "57f1078f-88aa-46f4-a59a-948a5739c03d", "name": "WhatsApp"},
					"locale": "spa",
					"components": [{"name": "body", "type": "body/text", "content": "Hola {{1}}, eres genial", "variables": {"1": 0}}],
					"variables": [{"type": "text"}]
				}
			]
		}
	],
	"flows": [
		{
			"uuid": "bead76f5-dac4-4c9d-996c-c62b326e8c0a",
			"name": "Templated",
			"spec_version": "13.5.0",
			"language": "spa",
			"type": "messaging",
			"localization": {},
			"nodes": [
				{
					"uuid": "72a1f5df-49f9-45df-94c9-d86f7ea064e5",
					"actions": [
						{
							"type": "send_msg",
							"uuid": "ad154980-7bf7-4ab8-8728-545fd6378912",
							"text": "Hola @contact.name, eres genial",
							"template": {"uuid": "5722e1fd-fe32-4e74-ac78-3cf41a6adb7e", "name": "affirmation"},
							"template_variables": ["@contact.name"]
						}
					],
					"exits": [{"uuid": "d7a36118-0a38-4b35-a7e4-ae89042f0d3c"}]
				}
			]
		}
	]
}`

func huntF1Run(t *testing.T, env envs.Environment, contactLang i18n.Language) *flows.MsgOut {
	_, _, sp, err := test.NewSessionBuilder().
		WithEnvironment(env).
		WithContact("2efa1803-ae4d-4a58-ba54-b523e53e40f3", 123, "Bob", contactLang, "tel:+12065551212?channel=57f1078f-88aa-46f4-a59a-948a5739c03d").
		WithAssetsJSON([]byte(huntF1Assets)).
		WithFlow("bead76f5-dac4-4c9d-996c-c62b326e8c0a").
		Build()
	require.NoError(t, err)

	for _, e := range sp.Events() {
		if m, ok := e.(*events.MsgCreatedEvent); ok {
			return m.Msg
		}
	}
	require.Fail(t, "no msg_created event")
	return nil
}

// An environment without allowed languages (what envs.NewBuilder().Build() and an environment JSON without
// "allowed_languages" give) has no default language, so the preference list is just the flow's base language.
// Instead of using that, send_msg with a template panics.
func TestHuntTemplateWithNoAllowedLanguages(t *testing.T) {
	env := envs.NewBuilder().WithDefaultCountry("US").Build() // no allowed languages

	var msg *flows.MsgOut
	require.NotPanics(t, func() { msg = huntF1Run(t, env, "") }, "send_msg with a template panicked for an environment without allowed languages")

	assert.Equal(t, "Hola Bob, eres genial", msg.Text())
	assert.Equal(t, i18n.Locale("spa"), msg.Locale())
}

// Contact language (allowed) and environment default language have no template translation.. the next preference is
// the flow's base language (spa) for which there is a translation, but the first listed translation (eng-US) is used.
func TestHuntTemplateFallsBackToFlowBaseLanguage(t *testing.T) {
	env := envs.NewBuilder().WithDefaultCountry("US").WithAllowedLanguages("fra", "kin").Build()

	msg := huntF1Run(t, env, "kin")

	assert.Equal(t, "Hola Bob, eres genial", msg.Text())
	assert.Equal(t, i18n.Locale("spa"), msg.Locale())
}
