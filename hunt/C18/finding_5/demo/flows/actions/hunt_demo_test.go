package actions_test

import (
	"testing"

	"github.com/nyaruka/gocommon/i18n"
	"github.com/nyaruka/goflow/envs"
	"github.com/nyaruka/goflow/flows"
	"github.com/nyaruka/goflow/flows/events"
	"github.com/nyaruka/goflow/test"
	"github.com/stretchr/testify/assert"
	"github.com/stretchr/testify/require"
)

// An English flow sends an image whose caption is an optional contact field. The image (attachments) has a French
// translation, the caption expression needs none.
const huntF5Assets = `{
	"channels": [
		{"uuid": "57f1078f-88aa-46f4-a59a-948a5739c03d", "name": "Android", "address": "+17036975131", "schemes": ["tel"], "roles": ["send", "receive"]}
	],
	"fields": [
		{"uuid": "d66a7823-eada-40e5-9a3a-57239d4690bf", "key": "caption", "name": "Caption", "type": "text"}
	],
	"flows": [
		{
			"uuid": "bead76f5-dac4-4c9d-996c-c62b326e8c0a",
			"name": "Poster",
			"spec_version": "13.5.0",
			"language": "eng",
			"type": "messaging",
			"localization": {
				"fra": {
					"b0000000-0000-4000-8000-000000000001": {"attachments": ["image/jpeg:http://example.com/affiche_fr.jpg"]}
				}
			},
			"nodes": [
				{
					"uuid": "72a1f5df-49f9-45df-94c9-d86f7ea064e5",
					"actions": [
						{
							"type": "send_msg",
							"uuid": "b0000000-0000-4000-8000-000000000001",
							"text": "@fields.caption",
							"attachments": ["image/jpeg:http://example.com/poster_en.jpg"]
						}
					],
					"exits": [{"uuid": "d7a36118-0a38-4b35-a7e4-ae89042f0d3c"}]
				}
			]
		}
	]
}`

func TestHuntLocaleOfTextlessMessage(t *testing.T) {
	env := envs.NewBuilder().WithAllowedLanguages("eng", "fra").Build()

	// French speaking contact who has no value for the caption field
	_, _, sp, err := test.NewSessionBuilder().
		WithEnvironment(env).
		WithContact("2efa1803-ae4d-4a58-ba54-b523e53e40f3", 123, "Bob", "fra", "tel:+12065551212").
		WithAssetsJSON([]byte(huntF5Assets)).
		WithFlow("bead76f5-dac4-4c9d-996c-c62b326e8c0a").
		Build()
	require.NoError(t, err)

	var msg *flows.MsgOut
	for _, e := range sp.Events() {
		if m, ok := e.(*events.MsgCreatedEvent); ok {
			msg = m.Msg
		}
	}
	require.NotNil(t, msg)

	// the created message has no text, and its only content is the French attachment..
	assert.Equal(t, "", msg.Text())
	assert.Equal(t, "image/jpeg:http://example.com/affiche_fr.jpg", string(msg.Attachments()[0]))

	// ..so its locale should name the language of the attachments
	lang, _ := msg.Locale().Split()
	assert.Equal(t, i18n.Language("fra"), lang)
}
