package actions_test

import (
	"testing"

	"github.com/nyaruka/goflow/envs"
	"github.com/nyaruka/goflow/flows"
	"github.com/nyaruka/goflow/flows/events"
	"github.com/nyaruka/goflow/test"
	"github.com/stretchr/testify/assert"
	"github.com/stretchr/testify/require"
)

// An English flow sends a templated message whose second variable is a piece of fixed text ("boy"). The flow has a
// Spanish translation of both the message text and the template variables (this is what migrating a pre 13.5
// definition with localized templating variables produces - see Migrate13_5).
const huntF2Assets = `{
	"channels": [
		{"uuid": "57f1078f-88aa-46f4-a59a-948a5739c03d", "name": "WhatsApp", "address": "+17036975131", "schemes": ["tel"], "roles": ["send", "receive"]}
	],
	"templates": [
		{
			"uuid": "5722e1fd-fe32-4e74-ac78-3cf41a6adb7e",
			"name": "affirmation",
			"translations": [
				{
					"channel": {"uuid": "57f1078f-88aa-46f4-a59a-948a5739c03d", "name": "WhatsApp"},
					"locale": "eng-US",
					"components": [{"name": "body", "type": "body/text", "content": "Hi {{1}}, who's an excellent {{2}}?", "variables": {"1": 0, "2": 1}}],
					"variables": [{"type": "text"}, {"type": "text"}]
				},
				{
					"channel": {"uuid": "57f1078f-88aa-46f4-a59a-948a5739c03d", "name": "WhatsApp"},
					"locale": "spa",
					"components": [{"name": "body", "type": "body/text", "content": "Hola {{1}}, quien es un {{2}} excelente?", "variables": {"1": 0, "2": 1}}],
					"variables": [{"type": "text"}, {"type": "text"}]
				}
			]
		}
	],
	"flows": [
		{
			"uuid": "bead76f5-dac4-4c9d-996c-c62b326e8c0a",
			"name": "Templated",
			"spec_version": "13.5.0",
			"language": "eng",
			"type": "messaging",
			"localization": {
				"spa": {
					"ad154980-7bf7-4ab8-8728-545fd6378912": {
						"text": ["Hola @contact.name, quien es un niño excelente?"],
						"template_variables": ["@contact.name", "niño"]
					}
				}
			},
			"nodes": [
				{
					"uuid": "72a1f5df-49f9-45df-94c9-d86f7ea064e5",
					"actions": [
						{
							"type": "send_msg",
							"uuid": "ad154980-7bf7-4ab8-8728-545fd6378912",
							"text": "Hi @contact.name, who's an excellent boy?",
							"template": {"uuid": "5722e1fd-fe32-4e74-ac78-3cf41a6adb7e", "name": "affirmation"},
							"template_variables": ["@contact.name", "boy"]
						}
					],
					"exits": [{"uuid": "d7a36118-0a38-4b35-a7e4-ae89042f0d3c"}]
				}
			]
		}
	]
}`

func TestHuntTemplateVariablesAreLocalized(t *testing.T) {
	env := envs.NewBuilder().WithDefaultCountry("US").WithAllowedLanguages("eng", "spa").Build()

	// a Spanish speaking contact.. Spanish is an allowed language and has a translation of the variables
	_, _, sp, err := test.NewSessionBuilder().
		WithEnvironment(env).
		WithContact("2efa1803-ae4d-4a58-ba54-b523e53e40f3", 123, "Bob", "spa", "tel:+12065551212?channel=57f1078f-88aa-46f4-a59a-948a5739c03d").
		WithAssetsJSON([]byte(huntF2Assets)).
		WithFlow("bead76f5-dac4-4c9d-996c-c62b326e8c0a").
		Build()
	require.NoError(t, err)

	var msg *flows.MsgOut
	for _, e := range sp.Events() {
		if m, ok := e.(*events.MsgCreatedEvent); ok {
			msg = m.Msg
		}
	}
	require.NotNil(t, msg)
	require.NotNil(t, msg.Templating())

	// the Spanish translation of the template is used..
	assert.Equal(t, "spa", string(msg.Locale()))

	// ..so the variables should be the Spanish ones as well, but the base (English) ones are used
	assert.Equal(t, "niño", msg.Templating().Variables[1].Value)
	assert.Equal(t, "Hola Bob, quien es un niño excelente?", msg.Text())
}
