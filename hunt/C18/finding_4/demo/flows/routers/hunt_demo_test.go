package routers_test

import (
	"testing"

	"github.com/nyaruka/goflow/envs"
	"github.com/nyaruka/goflow/test"
	"github.com/stretchr/testify/assert"
	"github.com/stretchr/testify/require"
)

// An English flow which splits on the contact's answer. The workspace default language is Spanish and the case
// argument has a Spanish translation. The French translation of the arguments has a different length than the base
// arguments (two items instead of one - e.g. left over from when the case had a two argument test, or the translator
// entered the words as separate items).
const huntF4Assets = `{
	"flows": [
		{
			"uuid": "bead76f5-dac4-4c9d-996c-c62b326e8c0a",
			"name": "Splitter",
			"spec_version": "13.5.0",
			"language": "eng",
			"type": "messaging",
			"localization": {
				"spa": {
					"33333333-3333-4333-8333-333333333333": {"arguments": ["si"]},
					"11111111-1111-4111-8111-111111111111": {"name": ["Si"]}
				},
				"fra": {
					"33333333-3333-4333-8333-333333333333": {"arguments": ["oui", "ouais"]},
					"11111111-1111-4111-8111-111111111111": {"name": ["Oui"]}
				}
			},
			"nodes": [
				{
					"uuid": "72a1f5df-49f9-45df-94c9-d86f7ea064e5",
					"router": {
						"type": "switch",
						"operand": "@input.text",
						"result_name": "Answer",
						"categories": [
							{"uuid": "11111111-1111-4111-8111-111111111111", "name": "Yes", "exit_uuid": "d7a36118-0a38-4b35-a7e4-ae89042f0d3c"},
							{"uuid": "22222222-2222-4222-8222-222222222222", "name": "Other", "exit_uuid": "e7a36118-0a38-4b35-a7e4-ae89042f0d3c"}
						],
						"cases": [
							{
								"uuid": "33333333-3333-4333-8333-333333333333",
								"type": "has_any_word",
								"arguments": ["yes"],
								"category_uuid": "11111111-1111-4111-8111-111111111111"
							}
						],
						"default_category_uuid": "22222222-2222-4222-8222-222222222222"
					},
					"exits": [
						{"uuid": "d7a36118-0a38-4b35-a7e4-ae89042f0d3c"},
						{"uuid": "e7a36118-0a38-4b35-a7e4-ae89042f0d3c"}
					]
				}
			]
		}
	]
}`

func huntF4Category(t *testing.T, input string) (string, string) {
	env := envs.NewBuilder().WithAllowedLanguages("spa", "fra").Build()

	_, session, _, err := test.NewSessionBuilder().
		WithEnvironment(env).
		WithContact("2efa1803-ae4d-4a58-ba54-b523e53e40f3", 123, "Bob", "fra", "tel:+12065551212").
		WithAssetsJSON([]byte(huntF4Assets)).
		WithFlow("bead76f5-dac4-4c9d-996c-c62b326e8c0a").
		WithTriggerMsg(input).
		Build()
	require.NoError(t, err)

	result := session.Runs()[0].Results().Get("answer")
	require.NotNil(t, result)
	return result.Category, result.CategoryLocalized
}

func TestHuntCaseArgumentsFallback(t *testing.T) {
	// preference order is fra (contact, allowed), spa (environment default), eng (flow base).

	// The fra translation of the arguments isn't usable (wrong number of arguments) and is ignored by the router, so the
	// next language that has a translation is spa and the Spanish answer should match.. but it doesn't
	cat, catLocalized := huntF4Category(t, "si")
	assert.Equal(t, "Yes", cat, "answer in environment default language should match")
	assert.Equal(t, "Oui", catLocalized)

	// ..because the arguments are taken from the flow base language - the last preference - while the name of
	// the category of the very same case is localized into the first (fra)
	cat, _ = huntF4Category(t, "yes")
	assert.Equal(t, "Other", cat, "base language arguments shouldn't be used when environment default language has a translation")
}
