package actions_test

import (
	"testing"

	"github.com/nyaruka/gocommon/i18n"
	"github.com/nyaruka/goflow/envs"
	"github.com/nyaruka/goflow/flows"
	"github.com/nyaruka/goflow/flows/events"
	"github.com/nyaruka/goflow/test"
	"github.com/stretchr/testify/assert"
	"github.com/stretchr/testify/require"
)

// An English flow used by a workspace whose default language is Spanish. The same message is sent to the contact
// (send_msg) and broadcast (send_broadcast). It's fully translated into Spanish, but in Kinyarwanda only the quick
// replies have been translated so far.
const huntF3Assets = `{
	"channels": [
		{"uuid": "57f1078f-88aa-46f4-a59a-948a5739c03d", "name": "Android", "address": "+17036975131", "schemes": ["tel"], "roles": ["send", "receive"]}
	],
	"flows": [
		{
			"uuid": "bead76f5-dac4-4c9d-996c-c62b326e8c0a",
			"name": "Broadcaster",
			"spec_version": "13.5.0",
			"language": "eng",
			"type": "messaging",
			"localization": {
				"spa": {
					"b0000000-0000-4000-8000-000000000001": {"text": ["Hola"], "quick_replies": ["si"]},
					"b0000000-0000-4000-8000-000000000002": {"text": ["Hola"], "quick_replies": ["si"]}
				},
				"kin": {
					"b0000000-0000-4000-8000-000000000001": {"quick_replies": ["yego"]},
					"b0000000-0000-4000-8000-000000000002": {"quick_replies": ["yego"]}
				}
			},
			"nodes": [
				{
					"uuid": "72a1f5df-49f9-45df-94c9-d86f7ea064e5",
					"actions": [
						{"type": "send_msg", "uuid": "b0000000-0000-4000-8000-000000000001", "text": "Hello", "quick_replies": ["yes"]},
						{"type": "send_broadcast", "uuid": "b0000000-0000-4000-8000-000000000002", "text": "Hello", "quick_replies": ["yes"], "urns": ["tel:+250788123123"]}
					],
					"exits": [{"uuid": "d7a36118-0a38-4b35-a7e4-ae89042f0d3c"}]
				}
			]
		}
	]
}`

func TestHuntBroadcastLanguageFallback(t *testing.T) {
	env := envs.NewBuilder().WithDefaultCountry("RW").WithAllowedLanguages("spa", "kin", "eng").Build()

	_, session, sp, err := test.NewSessionBuilder().
		WithEnvironment(env).
		WithContact("2efa1803-ae4d-4a58-ba54-b523e53e40f3", 123, "Bob", "kin", "tel:+12065551212").
		WithAssetsJSON([]byte(huntF3Assets)).
		WithFlow("bead76f5-dac4-4c9d-996c-c62b326e8c0a").
		Build()
	require.NoError(t, err)

	var msg *flows.MsgOut
	var bcast *events.BroadcastCreatedEvent
	for _, e := range sp.Events() {
		switch typed := e.(type) {
		case *events.MsgCreatedEvent:
			msg = typed.Msg
		case *events.BroadcastCreatedEvent:
			bcast = typed
		}
	}
	require.NotNil(t, msg)
	require.NotNil(t, bcast)

	// what send_msg gives a Kinyarwanda speaking contact: no kin text so the text is in the environment default
	// language, the quick replies (resolved independently) are in kin, and the locale names the language of the text
	assert.Equal(t, "Hola", msg.Text())
	assert.Equal(t, []string{"yego"}, msg.QuickReplies())
	msgLang, _ := msg.Locale().Split()
	assert.Equal(t, i18n.Language("spa"), msgLang)

	// what the broadcast gives the very same contact, using the library's own helper for picking the translation..
	content, locale := bcast.Translations.ForContact(session.Environment(), session.Contact(), bcast.BaseLanguage)

	// ..should be the same thing but the text is the base language text and the locale says it's Kinyarwanda
	assert.Equal(t, "Hola", content.Text, "broadcast text for kin contact should be in environment default language")
	assert.Equal(t, []string{"yego"}, content.QuickReplies)
	bcastLang, _ := locale.Split()
	assert.Equal(t, i18n.Language("spa"), bcastLang, "locale should name the language of the text")
}
