package expressions_test

// Demo for property C17 (legacy expression migration preserves meaning), finding 2: ordering comparisons of dates and texts become errors
//
// Each case gives a legacy template and the value the legacy engine gives it. Where it says "legacy_tests.json" the
// expected value is taken verbatim from flows/definition/legacy/expressions/testdata/legacy_tests.json, the test
// suite of the legacy engine (https://github.com/rapidpro/expressions) which goflow ships but only checks for errors.

import (
	"testing"
	"time"

	"github.com/nyaruka/goflow/envs"
	"github.com/nyaruka/goflow/excellent"
	"github.com/nyaruka/goflow/excellent/types"
	"github.com/nyaruka/goflow/flows/definition/legacy/expressions"
)

func TestHuntC17Finding2(t *testing.T) {
	env := envs.NewBuilder().WithDateFormat(envs.DateFormatDayMonthYear).WithTimezone(time.UTC).Build()
	joined, _ := types.ToXDateTime(env, types.NewXText("01-12-2014 09:00"))
	expires, _ := types.ToXDateTime(env, types.NewXText("01-12-2015 09:00"))
	ctx := types.NewXObject(map[string]types.XValue{"fields": types.NewXObject(map[string]types.XValue{"joined": joined, "expires": expires})})

	for _, tc := range []struct {
		legacy string
		want   string // what the legacy template evaluates to
		source string
	}{
		{`@(IF(contact.joined < date.now, "old", "new"))`, `old`, `joined is 01-12-2014 09:00; legacy compares datetimes, legacy_tests.json: @(date.d1 < date.d2) -> TRUE`},
		{`@(IF(contact.expires >= contact.joined, "ok", "expired"))`, `ok`, `legacy_tests.json: @(date.d1 <= date.d2) -> TRUE`},
		{`@(IF("14-08-2015 15:02" < "14-08-2015 15:03", "before", "after"))`, `before`, `legacy_tests.json: @(date.d1 < date.d2) -> TRUE with these two values`},
		{`@(IF("ab" < "ac", "y", "n"))`, `y`, `legacy_tests.json: @("ab" < "ac") -> TRUE`},
		{`@(IF("ab" <= "ab", "y", "n"))`, `y`, `legacy_tests.json: @("ab" <= "ab") -> TRUE`},
		{`@(IF(FALSE < TRUE, "y", "n"))`, `y`, `legacy_tests.json: @(FALSE < TRUE) -> TRUE`},
	} {
		migrated, err := expressions.MigrateTemplate(tc.legacy, nil)
		if err != nil {
			t.Errorf("migrating %s failed: %s", tc.legacy, err)
			continue
		}
		got, _, evalErr := excellent.NewEvaluator().Template(env, ctx, migrated, nil)
		if got != tc.want {
			t.Errorf("legacy %s denotes %q (%s)\n    migrated to %s which evaluates to %q (error: %v)", tc.legacy, tc.want, tc.source, migrated, got, evalErr)
		}
	}
}
