package expressions_test

// Demo for property C17 (legacy expression migration preserves meaning), finding 3: datetime + TIME replaces the time instead of adding it, datetime - TIME is an error
//
// Each case gives a legacy template and the value the legacy engine gives it. Where it says "legacy_tests.json" the
// expected value is taken verbatim from flows/definition/legacy/expressions/testdata/legacy_tests.json, the test
// suite of the legacy engine (https://github.com/rapidpro/expressions) which goflow ships but only checks for errors.

import (
	"testing"
	"time"

	"github.com/nyaruka/goflow/envs"
	"github.com/nyaruka/goflow/excellent"
	"github.com/nyaruka/goflow/excellent/types"
	"github.com/nyaruka/goflow/flows/definition/legacy/expressions"
)

func TestHuntC17Finding3(t *testing.T) {
	env := envs.NewBuilder().WithDateFormat(envs.DateFormatDayMonthYear).WithTimezone(time.UTC).Build()
	joined, _ := types.ToXDateTime(env, types.NewXText("01-12-2014 09:00"))
	ctx := types.NewXObject(map[string]types.XValue{"fields": types.NewXObject(map[string]types.XValue{"joined": joined})})

	for _, tc := range []struct {
		legacy string
		want   string // what the legacy template evaluates to
		source string
	}{
		{`@(contact.joined + TIME(2, 30, 0))`, `2014-12-01T11:30:00.000000Z`, `joined is 01-12-2014 09:00; legacy_tests.json: @(contact.joined + TIME(2, 30, 0)) -> 2014-12-01T11:30:00+02:00 (09:00 plus 2h30)`},
		{`@(contact.joined - TIME(2, 30, 0))`, `2014-12-01T06:30:00.000000Z`, `legacy_tests.json: @(contact.joined - TIME(2, 30, 0)) -> 2014-12-01T06:30:00+02:00`},
		{`@(DATEVALUE("01-12-2014") + TIME(2, 30, 0))`, `2014-12-01T02:30:00.000000Z`, `control: a date without time, passes`},
	} {
		migrated, err := expressions.MigrateTemplate(tc.legacy, nil)
		if err != nil {
			t.Errorf("migrating %s failed: %s", tc.legacy, err)
			continue
		}
		got, _, evalErr := excellent.NewEvaluator().Template(env, ctx, migrated, nil)
		if got != tc.want {
			t.Errorf("legacy %s denotes %q (%s)\n    migrated to %s which evaluates to %q (error: %v)", tc.legacy, tc.want, tc.source, migrated, got, evalErr)
		}
	}
}
