package expressions_test

// Demo for property C17 (legacy expression migration preserves meaning), finding 14: DATE(y, m, d) plus or minus days becomes a datetime
//
// Each case gives a legacy template and the value the legacy engine gives it. Where it says "legacy_tests.json" the
// expected value is taken verbatim from flows/definition/legacy/expressions/testdata/legacy_tests.json, the test
// suite of the legacy engine (https://github.com/rapidpro/expressions) which goflow ships but only checks for errors.

import (
	"testing"
	"time"

	"github.com/nyaruka/goflow/envs"
	"github.com/nyaruka/goflow/excellent"
	"github.com/nyaruka/goflow/excellent/types"
	"github.com/nyaruka/goflow/flows/definition/legacy/expressions"
)

func TestHuntC17Finding14(t *testing.T) {
	env := envs.NewBuilder().WithDateFormat(envs.DateFormatDayMonthYear).WithTimezone(time.UTC).Build()
	_ = env
	ctx := types.NewXObject(map[string]types.XValue{"fields": types.NewXObject(map[string]types.XValue{})})

	for _, tc := range []struct {
		legacy string
		want   string // what the legacy template evaluates to
		source string
	}{
		{`@(DATE(2014, 7, 1) + 1)`, `02-07-2014`, `legacy_tests.json (Africa/Kigali, day first)`},
		{`@(DATE(2014, 7, 1) - 3)`, `28-06-2014`, `legacy_tests.json`},
		{`@(DATEVALUE("1-7-2014") + 1)`, `02-07-2014`, `control: same date from DATEVALUE, passes`},
	} {
		migrated, err := expressions.MigrateTemplate(tc.legacy, nil)
		if err != nil {
			t.Errorf("migrating %s failed: %s", tc.legacy, err)
			continue
		}
		got, _, evalErr := excellent.NewEvaluator().Template(env, ctx, migrated, nil)
		if got != tc.want {
			t.Errorf("legacy %s denotes %q (%s)\n    migrated to %s which evaluates to %q (error: %v)", tc.legacy, tc.want, tc.source, migrated, got, evalErr)
		}
	}
}
