package expressions_test

// Demo for property C17 (legacy expression migration preserves meaning), finding 18: a function call with a
// number of arguments its migration template doesn't expect is migrated, without an error, to an expression which
// doesn't parse. The legacy templates below are all sentences of the legacy grammar (antlr/Excellent1.g4).

import (
	"testing"

	"github.com/nyaruka/goflow/excellent"
	"github.com/nyaruka/goflow/flows"
	"github.com/nyaruka/goflow/flows/definition/legacy/expressions"
)

func TestHuntC17Finding18(t *testing.T) {
	for _, legacy := range []string{
		`@(TRUE(1))`,                 // -> @(true%!(EXTRA string=1))
		`@(WEEKDAY("1-7-2014", 2))`,  // -> @(weekday("1-7-2014") + 1%!(EXTRA string=2))
		`@(FIRST_WORD("a b", 1))`,    // -> @(word("a b", 0)%!(EXTRA string=1))
		`@(LEFT("abc"))`,             // -> @(text_slice("abc", 0, %!s(BADINDEX)))
		`@(DAYS("1-7-2014"))`,        // -> @(datetime_diff(%!s(BADINDEX), "1-7-2014", "D"))
		`@(DAY())`,                   // -> @()
		`Hi @(HOUR()) there`,         // -> Hi @() there
		`@(TIME(1, 2))`,              // -> @()
		`@(WORD("a b", 1, TRUE, 4))`, // -> @()
		`@(YEAR(contact.joined))`,    // control, passes
	} {
		migrated, err := expressions.MigrateTemplate(legacy, nil)
		if err != nil {
			continue // reporting an error and keeping the legacy text would be fine
		}

		excellent.VisitTemplate(migrated, flows.RunContextTopLevels, false, func(tokenType excellent.XTokenType, token string) error {
			if tokenType == excellent.EXPRESSION {
				if _, err := excellent.Parse(token, nil); err != nil {
					t.Errorf("legacy %s migrated without error to %s in which the expression %q doesn't parse: %s", legacy, migrated, token, err)
				}
			}
			return nil
		})
	}
}
