package expressions_test

// Demo for property C17 (legacy expression migration preserves meaning), finding 4: DATEDIF units keep their legacy spelling but mean something else (or nothing) to datetime_diff
//
// Each case gives a legacy template and the value the legacy engine gives it. Where it says "legacy_tests.json" the
// expected value is taken verbatim from flows/definition/legacy/expressions/testdata/legacy_tests.json, the test
// suite of the legacy engine (https://github.com/rapidpro/expressions) which goflow ships but only checks for errors.

import (
	"testing"
	"time"

	"github.com/nyaruka/goflow/envs"
	"github.com/nyaruka/goflow/excellent"
	"github.com/nyaruka/goflow/excellent/types"
	"github.com/nyaruka/goflow/flows/definition/legacy/expressions"
)

func TestHuntC17Finding4(t *testing.T) {
	env := envs.NewBuilder().WithDateFormat(envs.DateFormatDayMonthYear).WithTimezone(time.UTC).Build()
	_ = env
	ctx := types.NewXObject(map[string]types.XValue{"fields": types.NewXObject(map[string]types.XValue{})})

	for _, tc := range []struct {
		legacy string
		want   string // what the legacy template evaluates to
		source string
	}{
		{`@(DATEDIF("20/9/14", "23/11/15", "m"))`, `14`, `legacy_tests.json: months`},
		{`@(DATEDIF("28/5/81", "23-11-15", "y"))`, `34`, `legacy_tests.json: years`},
		{`@(DATEDIF("1/6/2001", "15/8/2002", "d"))`, `440`, `legacy_tests.json: days`},
		{`@(DATEDIF("1/6/2001", "15/8/2002", "YM"))`, `2`, `legacy_tests.json`},
		{`@(DATEDIF("1/6/2001", "15/8/2002", "YD"))`, `75`, `legacy_tests.json`},
		{`@(DATEDIF("1/6/2001", "15/8/2002", "mD"))`, `14`, `legacy_tests.json`},
		{`@(DATEDIF("1/1/2011", "31-12-2012", "Y"))`, `1`, `control from legacy_tests.json, passes`},
	} {
		migrated, err := expressions.MigrateTemplate(tc.legacy, nil)
		if err != nil {
			t.Errorf("migrating %s failed: %s", tc.legacy, err)
			continue
		}
		got, _, evalErr := excellent.NewEvaluator().Template(env, ctx, migrated, nil)
		if got != tc.want {
			t.Errorf("legacy %s denotes %q (%s)\n    migrated to %s which evaluates to %q (error: %v)", tc.legacy, tc.want, tc.source, migrated, got, evalErr)
		}
	}
}
