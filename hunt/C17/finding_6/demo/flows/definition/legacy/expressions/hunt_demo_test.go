package expressions_test

// Demo for property C17 (legacy expression migration preserves meaning), finding 6: FIXED's no_commas flag becomes format_number's humanize flag uninverted; negative decimals are rejected
//
// Each case gives a legacy template and the value the legacy engine gives it. Where it says "legacy_tests.json" the
// expected value is taken verbatim from flows/definition/legacy/expressions/testdata/legacy_tests.json, the test
// suite of the legacy engine (https://github.com/rapidpro/expressions) which goflow ships but only checks for errors.

import (
	"testing"
	"time"

	"github.com/nyaruka/goflow/envs"
	"github.com/nyaruka/goflow/excellent"
	"github.com/nyaruka/goflow/excellent/types"
	"github.com/nyaruka/goflow/flows/definition/legacy/expressions"
)

func TestHuntC17Finding6(t *testing.T) {
	env := envs.NewBuilder().WithDateFormat(envs.DateFormatDayMonthYear).WithTimezone(time.UTC).Build()
	_ = env
	ctx := types.NewXObject(map[string]types.XValue{"fields": types.NewXObject(map[string]types.XValue{})})

	for _, tc := range []struct {
		legacy string
		want   string // what the legacy template evaluates to
		source string
	}{
		{`@(FIXED(1234.5678, 3, TRUE))`, `1234.568`, `legacy_tests.json: TRUE = no commas`},
		{`@(FIXED(1234.5678, 3, FALSE))`, `1,234.568`, `FALSE = with commas, as when omitted in legacy_tests.json: @(FIXED(1234.5678, 1)) -> 1,234.6`},
		{`@(FIXED(1234.5678, -1))`, `1,230`, `legacy_tests.json`},
		{`@(FIXED(1234.5678, -4))`, `0`, `legacy_tests.json`},
		{`@(FIXED(1234.5678, 1))`, `1,234.6`, `control from legacy_tests.json, passes`},
	} {
		migrated, err := expressions.MigrateTemplate(tc.legacy, nil)
		if err != nil {
			t.Errorf("migrating %s failed: %s", tc.legacy, err)
			continue
		}
		got, _, evalErr := excellent.NewEvaluator().Template(env, ctx, migrated, nil)
		if got != tc.want {
			t.Errorf("legacy %s denotes %q (%s)\n    migrated to %s which evaluates to %q (error: %v)", tc.legacy, tc.want, tc.source, migrated, got, evalErr)
		}
	}
}
