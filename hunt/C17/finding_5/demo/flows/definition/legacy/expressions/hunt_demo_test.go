package expressions_test

// Demo for property C17 (legacy expression migration preserves meaning), finding 5: SUBSTITUTE's instance number becomes replace's count
//
// Each case gives a legacy template and the value the legacy engine gives it. Where it says "legacy_tests.json" the
// expected value is taken verbatim from flows/definition/legacy/expressions/testdata/legacy_tests.json, the test
// suite of the legacy engine (https://github.com/rapidpro/expressions) which goflow ships but only checks for errors.

import (
	"testing"
	"time"

	"github.com/nyaruka/goflow/envs"
	"github.com/nyaruka/goflow/excellent"
	"github.com/nyaruka/goflow/excellent/types"
	"github.com/nyaruka/goflow/flows/definition/legacy/expressions"
)

func TestHuntC17Finding5(t *testing.T) {
	env := envs.NewBuilder().WithDateFormat(envs.DateFormatDayMonthYear).WithTimezone(time.UTC).Build()
	_ = env
	ctx := types.NewXObject(map[string]types.XValue{"fields": types.NewXObject(map[string]types.XValue{})})

	for _, tc := range []struct {
		legacy string
		want   string // what the legacy template evaluates to
		source string
	}{
		{`@(SUBSTITUTE("ab ab cd", "ab", "xy", 2))`, `ab xy cd`, `legacy_tests.json: only the 2nd occurrence is replaced`},
		{`@(SUBSTITUTE("a-b-c-d", "-", "+", 3))`, `a-b+c-d`, `same rule`},
		{`@(SUBSTITUTE("ab ab cd", "ab", "xy", -1))`, `xy xy cd`, `control from legacy_tests.json, passes`},
	} {
		migrated, err := expressions.MigrateTemplate(tc.legacy, nil)
		if err != nil {
			t.Errorf("migrating %s failed: %s", tc.legacy, err)
			continue
		}
		got, _, evalErr := excellent.NewEvaluator().Template(env, ctx, migrated, nil)
		if got != tc.want {
			t.Errorf("legacy %s denotes %q (%s)\n    migrated to %s which evaluates to %q (error: %v)", tc.legacy, tc.want, tc.source, migrated, got, evalErr)
		}
	}
}
