package expressions_test

// Demo for property C17 (legacy expression migration preserves meaning), finding 1: equality is case-sensitive and textual after migration
//
// Each case gives a legacy template and the value the legacy engine gives it. Where it says "legacy_tests.json" the
// expected value is taken verbatim from flows/definition/legacy/expressions/testdata/legacy_tests.json, the test
// suite of the legacy engine (https://github.com/rapidpro/expressions) which goflow ships but only checks for errors.

import (
	"testing"
	"time"

	"github.com/nyaruka/goflow/envs"
	"github.com/nyaruka/goflow/excellent"
	"github.com/nyaruka/goflow/excellent/types"
	"github.com/nyaruka/goflow/flows/definition/legacy/expressions"
)

func TestHuntC17Finding1(t *testing.T) {
	env := envs.NewBuilder().WithDateFormat(envs.DateFormatDayMonthYear).WithTimezone(time.UTC).Build()
	_ = env
	ctx := types.NewXObject(map[string]types.XValue{"fields": types.NewXObject(map[string]types.XValue{"gender": types.NewXText("M")})})

	for _, tc := range []struct {
		legacy string
		want   string // what the legacy template evaluates to
		source string
	}{
		{`@("ab" = "AB")`, `true`, `legacy string equality ignores case: legacy_tests.json has @("ab" <> "AB") -> FALSE`},
		{`@("ab" <> "AB")`, `false`, `legacy_tests.json: @("ab" <> "AB") -> FALSE`},
		{`@(IF(contact.gender = "m", "Sir", "Madam"))`, `Sir`, `contact.gender is "M"; follows from the above`},
		{`@("3.0" = 3.00)`, `true`, `legacy_tests.json: @("3.0" = 3.00) -> TRUE`},
		{`@("3.0" <> 3.00)`, `false`, `legacy_tests.json: @("3.0" <> 3.00) -> FALSE`},
	} {
		migrated, err := expressions.MigrateTemplate(tc.legacy, nil)
		if err != nil {
			t.Errorf("migrating %s failed: %s", tc.legacy, err)
			continue
		}
		got, _, evalErr := excellent.NewEvaluator().Template(env, ctx, migrated, nil)
		if got != tc.want {
			t.Errorf("legacy %s denotes %q (%s)\n    migrated to %s which evaluates to %q (error: %v)", tc.legacy, tc.want, tc.source, migrated, got, evalErr)
		}
	}
}
