package expressions_test

// Demo for property C17 (legacy expression migration preserves meaning), finding 17: EDATE from a month end overflows into the following month
//
// Each case gives a legacy template and the value the legacy engine gives it. Where it says "legacy_tests.json" the
// expected value is taken verbatim from flows/definition/legacy/expressions/testdata/legacy_tests.json, the test
// suite of the legacy engine (https://github.com/rapidpro/expressions) which goflow ships but only checks for errors.

import (
	"testing"
	"time"

	"github.com/nyaruka/goflow/envs"
	"github.com/nyaruka/goflow/excellent"
	"github.com/nyaruka/goflow/excellent/types"
	"github.com/nyaruka/goflow/flows/definition/legacy/expressions"
)

func TestHuntC17Finding17(t *testing.T) {
	env := envs.NewBuilder().WithDateFormat(envs.DateFormatDayMonthYear).WithTimezone(time.UTC).Build()
	_ = env
	ctx := types.NewXObject(map[string]types.XValue{"fields": types.NewXObject(map[string]types.XValue{})})

	for _, tc := range []struct {
		legacy string
		want   string // what the legacy template evaluates to
		source string
	}{
		{`@(EDATE("31-1-2020", 1))`, `2020-02-29T00:00:00.000000Z`, `legacy adds relativedelta(months=1), which clamps to the last day of the month (as Excel EDATE does)`},
		{`@(EDATE("31-3-2021", -1))`, `2021-02-28T00:00:00.000000Z`, `same rule`},
		{`@(EDATE("10-9-2015", 1))`, `2015-10-10T00:00:00.000000Z`, `control (legacy_tests.json: 10-10-2015), passes`},
	} {
		migrated, err := expressions.MigrateTemplate(tc.legacy, nil)
		if err != nil {
			t.Errorf("migrating %s failed: %s", tc.legacy, err)
			continue
		}
		got, _, evalErr := excellent.NewEvaluator().Template(env, ctx, migrated, nil)
		if got != tc.want {
			t.Errorf("legacy %s denotes %q (%s)\n    migrated to %s which evaluates to %q (error: %v)", tc.legacy, tc.want, tc.source, migrated, got, evalErr)
		}
	}
}
