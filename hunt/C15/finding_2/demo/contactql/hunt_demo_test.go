package contactql_test

import (
	"testing"
	"time"

	"github.com/nyaruka/goflow/assets"
	"github.com/nyaruka/goflow/assets/static"
	"github.com/nyaruka/goflow/contactql"
	"github.com/nyaruka/goflow/envs"
	"github.com/stretchr/testify/assert"
	"github.com/stretchr/testify/require"
)

type huntDemoQueryable map[string][]any

func (q huntDemoQueryable) QueryProperty(env envs.Environment, key string, propType contactql.PropertyType) []any {
	return q[key]
}

// C15: "... with dates compared by calendar day in the environment's timezone".
//
// In America/Santiago DST started at midnight on Sunday 2021-09-05 (00:00 -04 became 01:00 -03), so that day has no
// 00:00. A date-only query value is turned into local midnight of that day, and for such a day that gives 23:00 on the
// day BEFORE. Every comparison is then made against 2021-09-04: noon of the 4th "equals" 2021-09-05 and noon of the 5th
// doesn't. (Nothing here is within an hour of a day boundary, unlike the known 23h/25h day imprecision.)
func TestHuntDemoC15DateValueOnDayWithoutMidnight(t *testing.T) {
	for _, tc := range []struct {
		tz, format, day string
		dayNoon         [3]int
	}{
		{"America/Santiago", "YYYY-MM-DD", "2021-09-05", [3]int{2021, 9, 5}},
		{"America/Santiago", "DD-MM-YYYY", "05-09-2021", [3]int{2021, 9, 5}},
		{"America/Havana", "YYYY-MM-DD", "2021-03-14", [3]int{2021, 3, 14}},
		{"America/Asuncion", "YYYY-MM-DD", "2021-10-03", [3]int{2021, 10, 3}},
	} {
		tz, err := time.LoadLocation(tc.tz)
		require.NoError(t, err)

		env := envs.NewBuilder().WithTimezone(tz).WithDateFormat(envs.DateFormat(tc.format)).Build()
		resolver := contactql.NewMockResolver([]assets.Field{
			static.NewField("3810a485-3fda-4011-a589-7320c0b8dbef", "dob", "DOB", assets.FieldTypeDatetime),
		}, nil, nil)

		noonThatDay := time.Date(tc.dayNoon[0], time.Month(tc.dayNoon[1]), tc.dayNoon[2], 12, 0, 0, 0, tz)
		noonDayBefore := time.Date(tc.dayNoon[0], time.Month(tc.dayNoon[1]), tc.dayNoon[2]-1, 12, 0, 0, 0, tz)
		require.Equal(t, tc.dayNoon[2], noonThatDay.Day())
		require.Equal(t, tc.dayNoon[2]-1, noonDayBefore.Day())

		eval := func(prop, op string, val time.Time) bool {
			parsed, err := contactql.ParseQuery(env, prop+" "+op+" "+tc.day, resolver)
			require.NoError(t, err)
			return contactql.EvaluateQuery(env, parsed, huntDemoQueryable{prop: []any{val}})
		}

		for _, prop := range []string{"dob", "created_on"} {
			// noon of the day asked for
			assert.True(t, eval(prop, "=", noonThatDay), "%s: %s = %s should be true for %s", tc.tz, prop, tc.day, noonThatDay)
			assert.False(t, eval(prop, "!=", noonThatDay), "%s: %s != %s should be false for %s", tc.tz, prop, tc.day, noonThatDay)
			assert.False(t, eval(prop, ">", noonThatDay), "%s: %s > %s should be false for %s", tc.tz, prop, tc.day, noonThatDay)
			assert.True(t, eval(prop, "<=", noonThatDay), "%s: %s <= %s should be true for %s", tc.tz, prop, tc.day, noonThatDay)

			// noon of the day before
			assert.False(t, eval(prop, "=", noonDayBefore), "%s: %s = %s should be false for %s", tc.tz, prop, tc.day, noonDayBefore)
			assert.True(t, eval(prop, "!=", noonDayBefore), "%s: %s != %s should be true for %s", tc.tz, prop, tc.day, noonDayBefore)
			assert.True(t, eval(prop, "<", noonDayBefore), "%s: %s < %s should be true for %s", tc.tz, prop, tc.day, noonDayBefore)
			assert.False(t, eval(prop, ">=", noonDayBefore), "%s: %s >= %s should be false for %s", tc.tz, prop, tc.day, noonDayBefore)
		}
	}
}
