package flows_test

import (
	"testing"

	"github.com/nyaruka/goflow/assets"
	"github.com/nyaruka/goflow/contactql"
	"github.com/nyaruka/goflow/flows"
	"github.com/nyaruka/goflow/test"
	"github.com/stretchr/testify/assert"
	"github.com/stretchr/testify/require"
)

// C15: "an empty-valued '=' or '!=' tests absence or presence of the property". The attributes group, status and id
// are admitted by the validator but flows.Contact.QueryProperty has no case for them, so to the evaluator every contact
// lacks them: `group = ""` is true for a contact that is in a group and `group = "Testers"` is false for a member.
func TestHuntDemoC15UnresolvedAttributes(t *testing.T) {
	_, session, _ := test.NewSessionBuilder().MustBuild()
	env := session.Environment()
	sa := session.Assets()

	contact, err := flows.ReadContact(sa, []byte(`{
		"uuid": "ba96bf7f-bc2a-4873-a7c7-254d1927c4e3",
		"id": 1234567,
		"name": "Ben Haggerty",
		"status": "active",
		"groups": [
			{"uuid": "b7cf0d83-f1c9-411c-96fd-c511a4cfa86d", "name": "Testers"}
		],
		"created_on": "2020-01-24T13:24:30Z"
	}`), assets.PanicOnMissing)
	require.NoError(t, err)
	require.Equal(t, 1, contact.Groups().Count())
	require.Equal(t, "Testers", contact.Groups().All()[0].Name())
	require.Equal(t, flows.ContactStatusActive, contact.Status())
	require.Equal(t, flows.ContactID(1234567), contact.ID())

	eval := func(q string) bool {
		parsed, err := contactql.ParseQuery(env, q, sa)
		require.NoError(t, err, "query %s should parse", q)
		return contactql.EvaluateQuery(env, parsed, contact)
	}

	// the contact is in a group, so the group property is present
	assert.False(t, eval(`group = ""`), `group = "" should be false for a contact that is in a group`)
	assert.True(t, eval(`group != ""`), `group != "" should be true for a contact that is in a group`)

	// .. and it is in the group Testers
	assert.True(t, eval(`group = "Testers"`), `group = "Testers" should be true for a member of Testers`)
	assert.False(t, eval(`group != "Testers"`), `group != "Testers" should be false for a member of Testers`)

	// same for the other two attributes the contact object carries
	assert.True(t, eval(`status = active`), `status = active should be true for an active contact`)
	assert.False(t, eval(`status != active`), `status != active should be false for an active contact`)
	assert.True(t, eval(`id = 1234567`), `id = 1234567 should be true for the contact with that id`)
	assert.False(t, eval(`id != 1234567`), `id != 1234567 should be false for the contact with that id`)
}

// the same through the path that computes group membership: a query based group whose query uses one of these attributes
// is accepted when the assets are loaded and then has the wrong members
func TestHuntDemoC15UnresolvedAttributesInGroupQuery(t *testing.T) {
	_, session, _ := test.NewSessionBuilder().MustBuild()
	env := session.Environment()
	sa := session.Assets()

	contact, err := flows.ReadContact(sa, []byte(`{
		"uuid": "ba96bf7f-bc2a-4873-a7c7-254d1927c4e3",
		"id": 1234567,
		"name": "Ben Haggerty",
		"status": "active",
		"groups": [
			{"uuid": "b7cf0d83-f1c9-411c-96fd-c511a4cfa86d", "name": "Testers"}
		],
		"created_on": "2020-01-24T13:24:30Z"
	}`), assets.PanicOnMissing)
	require.NoError(t, err)

	fields := flows.NewFieldAssets(nil)

	mk := func(query string) *flows.Group {
		g, err := flows.NewGroup(env, fields, &huntGroup{query: query})
		require.NoError(t, err, "group with query %s should load", query)
		return g
	}

	assert.False(t, mk(`group = ""`).CheckQueryBasedMembership(env, contact), `contact in a group should not be a member of 'group = ""'`)
	assert.True(t, mk(`status = active`).CheckQueryBasedMembership(env, contact), `active contact should be a member of 'status = active'`)
	assert.True(t, mk(`id = 1234567`).CheckQueryBasedMembership(env, contact), `contact should be a member of 'id = 1234567'`)
}

type huntGroup struct{ query string }

func (g *huntGroup) UUID() assets.GroupUUID { return "6a1f2c9b-7f0a-4b3e-9a67-0c5a3f6f3b11" }
func (g *huntGroup) Name() string           { return "Hunt" }
func (g *huntGroup) Query() string          { return g.query }
