package migrations_test

import (
	"fmt"
	"os"
	"os/exec"
	"strings"
	"testing"

	"github.com/nyaruka/gocommon/jsonx"
	"github.com/nyaruka/goflow/flows/definition/migrations"
	"github.com/stretchr/testify/assert"
)

// builds a structurally valid 13.2 definition (send_msg) or legacy definition (reply) whose only message text is the given template
func huntDefinition(legacy bool, text string) []byte {
	if legacy {
		return jsonx.MustMarshal(map[string]any{
			"base_language": "eng", "flow_type": "F", "entry": "365293c7-633c-45bd-96b7-0b059766588d", "rule_sets": []any{},
			"metadata": map[string]any{"uuid": "76f0a02f-3b75-4b86-9064-e9195e1b3a02", "name": "Deep"},
			"action_sets": []any{map[string]any{
				"uuid": "365293c7-633c-45bd-96b7-0b059766588d", "exit_uuid": "3bd19c40-1114-4b83-b12e-f0c38054ba3f", "x": 0, "y": 0,
				"actions": []any{map[string]any{"uuid": "8eebd020-1af5-431c-b943-aa670fc74da9", "type": "reply", "msg": map[string]any{"eng": text}}},
			}},
		})
	}
	return jsonx.MustMarshal(map[string]any{
		"uuid": "76f0a02f-3b75-4b86-9064-e9195e1b3a02", "name": "Deep", "spec_version": "13.2.0", "language": "eng", "type": "messaging",
		"nodes": []any{map[string]any{
			"uuid":    "365293c7-633c-45bd-96b7-0b059766588d",
			"actions": []any{map[string]any{"uuid": "8eebd020-1af5-431c-b943-aa670fc74da9", "type": "send_msg", "text": text}},
			"exits":   []any{map[string]any{"uuid": "3bd19c40-1114-4b83-b12e-f0c38054ba3f"}},
		}},
	})
}

// Migrating a hostile definition has to give a definition or an error. A 2 MB message text which is one expression
// nested a million parentheses deep instead kills the process with "fatal error: stack overflow" (which recover()
// can't catch), so the migration is run in a child process here.
func TestHuntDeeplyNestedExpressionKillsProcess(t *testing.T) {
	const depth = 1_000_000

	if which := os.Getenv("HUNT_CHILD"); which != "" {
		text := "@(" + strings.Repeat("(", depth) + "webhook" + strings.Repeat(")", depth) + ")"
		_, err := migrations.MigrateToLatest(huntDefinition(which == "legacy", text), migrations.DefaultConfig)
		fmt.Printf("HUNT_CHILD_RETURNED err=%v\n", err)
		return
	}

	for _, which := range []string{"13.2", "legacy"} {
		cmd := exec.Command(os.Args[0], "-test.run=^TestHuntDeeplyNestedExpressionKillsProcess$", "-test.v")
		cmd.Env = append(os.Environ(), "HUNT_CHILD="+which)
		out, err := cmd.CombinedOutput()

		head := string(out)
		if len(head) > 300 {
			head = head[:300] + "..."
		}
		if err != nil {
			t.Errorf("migrating a %s definition with a deeply nested expression killed the process (%s):\n%s", which, err, head)
		} else {
			assert.Contains(t, string(out), "HUNT_CHILD_RETURNED", "MigrateToLatest didn't return for %s definition", which)
		}
	}
}
