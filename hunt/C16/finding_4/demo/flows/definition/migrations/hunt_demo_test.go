package migrations_test

import (
	"encoding/json"
	"testing"
	"time"

	"github.com/nyaruka/goflow/flows/definition"
	"github.com/nyaruka/goflow/flows/definition/migrations"
)

// a legacy flow with one airtime ruleset, as the legacy editor wrote them, except for the exponent of the amount
const huntLegacyAirtime = `{
	"base_language": "eng",
	"flow_type": "F",
	"entry": "75656148-9e8b-4611-82c0-7ff4b55fb44a",
	"metadata": {"uuid": "76f0a02f-3b75-4b86-9064-e9195e1b3a02", "name": "Airtime"},
	"action_sets": [],
	"rule_sets": [
		{
			"uuid": "75656148-9e8b-4611-82c0-7ff4b55fb44a", "x": 0, "y": 0, "label": "Transfer", "ruleset_type": "airtime", "operand": "@step.value",
			"rules": [
				{"uuid": "6103fa71-6ca9-4300-aec6-929f50fa1ae0", "category": {"eng": "Success"}, "test": {"type": "airtime_status", "exit_status": "success"}},
				{"uuid": "bcb18434-1932-4a38-a4cd-a2c4a70b8e9a", "category": {"eng": "Failure"}, "test": {"type": "airtime_status", "exit_status": "failed"}}
			],
			"config": {"EC": {"currency_code": "USD", "amount": 1e50000000}}
		}
	]
}`

// the same as a definition of the current version
const huntCurrentAirtime = `{
	"uuid": "76f0a02f-3b75-4b86-9064-e9195e1b3a02", "name": "Airtime", "spec_version": "13.6.0", "language": "eng", "type": "messaging",
	"nodes": [
		{
			"uuid": "bd5c8a6b-1bb3-4b3a-8e1d-1e0a2b3c4d5e",
			"actions": [{"uuid": "8eebd020-1af5-431c-b943-aa670fc74da9", "type": "transfer_airtime", "amounts": {"USD": 1e50000000}, "result_name": "Airtime"}],
			"exits": [{"uuid": "f9fb0d0c-8a0f-4a0e-9b0a-7c1d2e3f4a5b"}]
		}
	]
}`

func huntWithin(t *testing.T, limit time.Duration, what string, fn func() (int, error)) {
	type result struct {
		size int
		err  error
	}
	done := make(chan result, 1)
	start := time.Now()
	go func() {
		size, err := fn()
		done <- result{size, err}
	}()

	select {
	case r := <-done:
		t.Logf("%s returned %d bytes, err=%v after %s", what, r.size, r.err, time.Since(start))
	case <-time.After(limit):
		t.Errorf("%s still hasn't returned after %s", what, limit)
	}
}

// A definition of a few hundred bytes has to be migrated (or refused) quickly. Because the 11 character amount
// 1e50000000 is written out as a 1 followed by 50 million zeros, migrating takes minutes and gives a 50 MB definition,
// and larger exponents (the reader accepts up to 1e2147483647) never finish or exhaust memory.
func TestHuntLegacyAirtimeAmountWithHugeExponent(t *testing.T) {
	huntWithin(t, 10*time.Second, "MigrateToLatest of legacy definition", func() (int, error) {
		migrated, err := migrations.MigrateToLatest([]byte(huntLegacyAirtime), migrations.DefaultConfig)
		return len(migrated), err
	})
}

// Likewise a definition of the current version is read without error but can't then be marshalled back
func TestHuntCurrentAirtimeAmountWithHugeExponent(t *testing.T) {
	huntWithin(t, 10*time.Second, "ReadFlow and json.Marshal of current definition", func() (int, error) {
		flow, err := definition.ReadFlow([]byte(huntCurrentAirtime), nil)
		if err != nil {
			return 0, err
		}
		marshaled, err := json.Marshal(flow)
		return len(marshaled), err
	})
}
