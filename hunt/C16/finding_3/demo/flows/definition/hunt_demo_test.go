package definition_test

import (
	"encoding/json"
	"testing"

	"github.com/nyaruka/goflow/flows/definition"
	"github.com/nyaruka/goflow/flows/routers/waits"
	"github.com/stretchr/testify/assert"
	"github.com/stretchr/testify/require"
)

func TestHuntDialLimitRoundTrip(t *testing.T) {
	def := `{
		"uuid": "76f0a02f-3b75-4b86-9064-e9195e1b3a02",
		"name": "Forward call",
		"spec_version": "13.6.0",
		"language": "eng",
		"type": "voice",
		"nodes": [
			{
				"uuid": "bd5c8a6b-1bb3-4b3a-8e1d-1e0a2b3c4d5e",
				"router": {
					"type": "switch",
					"wait": {"type": "dial", "phone": "+593979123456", "dial_limit_seconds": 0, "call_limit_seconds": 0},
					"operand": "@(default(resume.dial.status, \"\"))",
					"cases": [],
					"categories": [
						{"uuid": "5ce6c69a-fdfe-4594-ab71-26be534d31c3", "name": "Other", "exit_uuid": "f9fb0d0c-8a0f-4a0e-9b0a-7c1d2e3f4a5b"}
					],
					"default_category_uuid": "5ce6c69a-fdfe-4594-ab71-26be534d31c3"
				},
				"exits": [
					{"uuid": "f9fb0d0c-8a0f-4a0e-9b0a-7c1d2e3f4a5b"}
				]
			}
		]
	}`

	flow1, err := definition.ReadFlow([]byte(def), nil)
	require.NoError(t, err)

	marshaled, err := json.Marshal(flow1)
	require.NoError(t, err)

	flow2, err := definition.ReadFlow(marshaled, nil)
	require.NoError(t, err)

	wait1 := flow1.Nodes()[0].Router().Wait().(*waits.DialWait)
	wait2 := flow2.Nodes()[0].Router().Wait().(*waits.DialWait)

	assert.Equal(t, wait1.DialLimit(), wait2.DialLimit(), "dial limit changed by marshalling the flow and reading it back: %s", string(marshaled))
	assert.Equal(t, wait1.CallLimit(), wait2.CallLimit(), "call limit changed by marshalling the flow and reading it back: %s", string(marshaled))
}
