package migrations_test

import (
	"testing"

	"github.com/nyaruka/gocommon/jsonx"
	"github.com/nyaruka/goflow/envs"
	"github.com/nyaruka/goflow/excellent"
	"github.com/nyaruka/goflow/excellent/types"
	"github.com/nyaruka/goflow/flows/definition"
	"github.com/nyaruka/goflow/flows/definition/migrations"
	"github.com/stretchr/testify/assert"
	"github.com/stretchr/testify/require"
)

// A 13.2 voice flow which looks a number up with a webhook and then forwards the call to it. Both the router operand
// and the phone of the dial wait are templates which refer to @webhook.
const huntDialFlow = `{
	"uuid": "76f0a02f-3b75-4b86-9064-e9195e1b3a02",
	"name": "Forward call",
	"spec_version": "13.2.0",
	"language": "eng",
	"type": "voice",
	"nodes": [
		{
			"uuid": "365293c7-633c-45bd-96b7-0b059766588d",
			"actions": [
				{
					"uuid": "8eebd020-1af5-431c-b943-aa670fc74da9",
					"type": "call_webhook",
					"method": "GET",
					"url": "http://example.com/lookup",
					"result_name": "Lookup"
				}
			],
			"exits": [
				{"uuid": "3bd19c40-1114-4b83-b12e-f0c38054ba3f", "destination_uuid": "bd5c8a6b-1bb3-4b3a-8e1d-1e0a2b3c4d5e"}
			]
		},
		{
			"uuid": "bd5c8a6b-1bb3-4b3a-8e1d-1e0a2b3c4d5e",
			"router": {
				"type": "switch",
				"wait": {"type": "dial", "phone": "@webhook.phone"},
				"operand": "@webhook.phone",
				"cases": [],
				"categories": [
					{"uuid": "5ce6c69a-fdfe-4594-ab71-26be534d31c3", "name": "Other", "exit_uuid": "f9fb0d0c-8a0f-4a0e-9b0a-7c1d2e3f4a5b"}
				],
				"default_category_uuid": "5ce6c69a-fdfe-4594-ab71-26be534d31c3"
			},
			"exits": [
				{"uuid": "f9fb0d0c-8a0f-4a0e-9b0a-7c1d2e3f4a5b"}
			]
		}
	]
}`

func TestHuntDialWaitPhoneNotRewritten(t *testing.T) {
	migrated, err := migrations.MigrateToLatest([]byte(huntDialFlow), migrations.DefaultConfig)
	require.NoError(t, err)

	// the migrated definition is a valid current definition
	_, err = definition.ReadFlow(migrated, nil)
	require.NoError(t, err)

	flow, err := migrations.ReadFlow(migrated)
	require.NoError(t, err)
	router := flow.Nodes()[1].Router()
	operand := router["operand"].(string)
	phone := router["wait"].(map[string]any)["phone"].(string)

	env := envs.NewBuilder().Build()
	eval := excellent.NewEvaluator()
	payload := types.JSONToXValue([]byte(`{"phone": "+593979123456"}`))

	// what @webhook was before 13.3: the parsed JSON of the last webhook response
	before := types.NewXObject(map[string]types.XValue{"webhook": payload})

	// what @webhook is from 13.3 on: an object with the parsed JSON as its json property
	after := types.NewXObject(map[string]types.XValue{"webhook": types.NewXObject(map[string]types.XValue{
		"status": types.NewXNumberFromInt(200), "headers": types.XObjectEmpty, "json": payload,
	})})

	for name, tpl := range map[string]string{"operand": operand, "wait.phone": phone} {
		original, _, err := eval.Template(env, before, "@webhook.phone", nil)
		require.NoError(t, err)
		assert.Equal(t, "+593979123456", original)

		now, _, _ := eval.Template(env, after, tpl, nil)
		assert.Equal(t, original, now, "template %s was %q in 13.2, is %q after migration and no longer evaluates to the same value", name, "@webhook.phone", tpl)
	}

	t.Log(string(jsonx.MustMarshal(router)))
}
