package test

import (
	"bytes"
	"encoding/json"
	"fmt"
	"io"
	"math/rand"
	"net/http"
	"os"
	"path/filepath"
	"strings"
	"testing"
	"time"

	"github.com/nyaruka/gocommon/httpx"
	"github.com/nyaruka/gocommon/jsonx"
	"github.com/nyaruka/gocommon/urns"
	"github.com/nyaruka/goflow/assets"
	"github.com/nyaruka/goflow/envs"
	"github.com/nyaruka/goflow/flows"
	"github.com/nyaruka/goflow/flows/engine"
	"github.com/nyaruka/goflow/flows/resumes"
	"github.com/nyaruka/goflow/flows/triggers"
	"github.com/nyaruka/goflow/services/webhooks"
	"github.com/nyaruka/goflow/utils/smtpx"
)

type huntRequestor struct{ rnd *rand.Rand }

func (r *huntRequestor) Do(client *http.Client, request *http.Request) (*http.Response, error) {
	switch r.rnd.Intn(5) {
	case 0:
		return nil, fmt.Errorf("unable to connect to server")
	case 1:
		return mkResp(request, 500, "oops"), nil
	case 2:
		return mkResp(request, 200, `{"ok":true,"results":[{"state":"WA"},{"state":"IN"}],"count":1}`), nil
	case 3:
		return mkResp(request, 200, `not json \x00`), nil
	default:
		return mkResp(request, 200, `{"contact": {"uuid": "abc"}, "status":"Success", "product_id": 1}`), nil
	}
}

func mkResp(req *http.Request, status int, body string) *http.Response {
	return &http.Response{
		Status: fmt.Sprintf("%d X", status), StatusCode: status, Proto: "HTTP/1.0", ProtoMajor: 1, ProtoMinor: 0,
		Header: http.Header{"Content-Type": []string{"application/json"}}, Body: io.NopCloser(bytes.NewReader([]byte(body))),
		ContentLength: int64(len(body)), Request: req,
	}
}

func huntCheck(sa flows.SessionAssets, s flows.Session, sp flows.Sprint, before map[flows.RunUUID]int) []string {
	var errs []string
	bad := func(f string, a ...any) { errs = append(errs, fmt.Sprintf(f, a...)) }

	st := s.Status()
	if st != flows.SessionStatusWaiting && st != flows.SessionStatusCompleted && st != flows.SessionStatusFailed {
		bad("session status %s", st)
	}
	var waiting []flows.Run
	var active []flows.Run
	for _, r := range s.Runs() {
		switch r.Status() {
		case flows.RunStatusWaiting:
			waiting = append(waiting, r)
		case flows.RunStatusActive:
			active = append(active, r)
		case flows.RunStatusCompleted, flows.RunStatusFailed, flows.RunStatusExpired:
		default:
			bad("run status %s", r.Status())
		}
		exited := r.Status() == flows.RunStatusCompleted || r.Status() == flows.RunStatusFailed || r.Status() == flows.RunStatusExpired
		if exited != (r.ExitedOn() != nil) {
			bad("run %s status %s exited_on set=%v", r.UUID(), r.Status(), r.ExitedOn() != nil)
		}
	}
	if st == flows.SessionStatusWaiting {
		if len(waiting) != 1 {
			bad("waiting session has %d waiting runs", len(waiting))
		} else {
			w := waiting[0]
			_, node, err := w.PathLocation()
			if err != nil || node.Router() == nil || node.Router().Wait() == nil {
				bad("waiting run not on wait node: %v", err)
			}
			anc := map[flows.RunUUID]bool{}
			for _, a := range w.Ancestors() {
				anc[a.UUID()] = true
			}
			for _, a := range active {
				if !anc[a.UUID()] {
					bad("active run %s is not ancestor of waiting run", a.UUID())
				}
			}
		}
	} else {
		if len(waiting) != 0 || len(active) != 0 {
			bad("session %s has %d waiting %d active runs", st, len(waiting), len(active))
		}
	}

	// paths
	for ri, r := range s.Runs() {
		if r.Flow() == nil {
			continue
		}
		p := r.Path()
		stepUUIDs := map[flows.StepUUID]bool{}
		for i, step := range p {
			if stepUUIDs[step.UUID()] {
				bad("run %d dup step uuid", ri)
			}
			stepUUIDs[step.UUID()] = true
			node := r.Flow().GetNode(step.NodeUUID())
			if node == nil {
				bad("run %d step %d node not in flow", ri, i)
				continue
			}
			if step.ExitUUID() == "" {
				if i < len(p)-1 {
					bad("run %d step %d (not last of %d) lacks exit", ri, i, len(p))
				}
				continue
			}
			var exit flows.Exit
			for _, e := range node.Exits() {
				if e.UUID() == step.ExitUUID() {
					exit = e
				}
			}
			if exit == nil {
				bad("run %d step %d exit not of node", ri, i)
				continue
			}
			if i < len(p)-1 && exit.DestinationUUID() != p[i+1].NodeUUID() {
				bad("run %d step %d exit leads to %s but next is %s", ri, i, exit.DestinationUUID(), p[i+1].NodeUUID())
			}
		}
		// events
		evs := r.Events()
		from := before[r.UUID()]
		if from > len(evs) {
			bad("run %d lost events", ri)
			continue
		}
		si := 0
		spe := sp.Events()
		for _, e := range evs[from:] {
			if e.StepUUID() != "" && !stepUUIDs[e.StepUUID()] {
				bad("run %d event %s names step %s not in run", ri, e.Type(), e.StepUUID())
			}
			found := false
			for si < len(spe) {
				if spe[si] == e {
					found = true
					si++
					break
				}
				si++
			}
			if !found {
				bad("run %d event %s not in sprint (in order)", ri, e.Type())
			}
		}
	}
	// every sprint event with a step names a step of some run in the session
	return errs
}

func huntCounts(s flows.Session) map[flows.RunUUID]int {
	m := map[flows.RunUUID]int{}
	for _, r := range s.Runs() {
		m[r.UUID()] = len(r.Events())
	}
	return m
}

var huntTexts = []string{"", "yes", "no", "blue", "red", "1", "2", "3", "10", "stop", "Ryan Lewis", "+12065551212", "hello world", "I like blue!", "0", "\u0000", "ß", "23 jan 2020", "male", "beer", "skol", "turbo king", "primus", "mutzig", "none", "more", "I'm ben", "teacher", "kigali", "5", "7", "15"}

func TestHuntFuzz(t *testing.T) {
	defer httpx.SetRequestor(httpx.DefaultRequestor)
	defer smtpx.SetSender(smtpx.DefaultSender)

	files, _ := filepath.Glob("testdata/runner/*.json")
	type tc struct {
		assetsFile string
		trigger    json.RawMessage
		resumes    []json.RawMessage
	}
	var tcs []tc
	for _, f := range files {
		base := filepath.Base(f)
		parts := strings.Split(base, ".")
		if len(parts) != 3 {
			continue
		}
		ft := &FlowTest{}
		b, _ := os.ReadFile(f)
		if err := jsonx.Unmarshal(b, ft); err != nil {
			t.Fatal(err)
		}
		tcs = append(tcs, tc{"testdata/runner/" + parts[0] + ".json", ft.Trigger, ft.Resumes})
	}

	iters := 40
	if v := os.Getenv("HUNT_ITERS"); v != "" {
		fmt.Sscanf(v, "%d", &iters)
	}
	seen := map[string]bool{}
	stats := map[string]int{}
	violations := 0

	for ti, c := range tcs {
		env := envs.NewBuilder().Build()
		sa, err := LoadSessionAssets(env, c.assetsFile)
		if err != nil {
			t.Logf("skip %s: %s", c.assetsFile, err)
			continue
		}
		// all flows in the assets file
		var af struct {
			Flows []struct {
				UUID string `json:"uuid"`
				Name string `json:"name"`
			} `json:"flows"`
		}
		b, _ := os.ReadFile(c.assetsFile)
		json.Unmarshal(b, &af)

		for it := 0; it < iters; it++ {
			rnd := rand.New(rand.NewSource(int64(ti*100000 + it)))
			httpx.SetRequestor(&huntRequestor{rnd})
			smtpx.SetSender(smtpx.NewMockSender(nil, nil, nil, nil, nil, nil, nil, nil, nil, nil, nil, nil, nil, nil, nil, nil, nil, nil, nil, nil))

			trigJSON := c.trigger
			if rnd.Intn(3) == 0 && len(af.Flows) > 0 {
				fl := af.Flows[rnd.Intn(len(af.Flows))]
				var m map[string]any
				json.Unmarshal(trigJSON, &m)
				m["flow"] = map[string]any{"uuid": fl.UUID, "name": fl.Name}
				trigJSON, _ = json.Marshal(m)
			}
			trigger, err := triggers.ReadTrigger(sa, trigJSON, assets.IgnoreMissing)
			if err != nil {
				continue
			}
			steps := []int{1, 2, 3, 5, 8, 100, 100, 100}[rnd.Intn(8)]
			maxRes := []int{0, 1, 2, 3, 500, 500, 500}[rnd.Intn(7)]
			eng := engine.NewBuilder().
				WithMaxStepsPerSprint(steps).
				WithMaxResumesPerSession(maxRes).
				WithEmailServiceFactory(func(s flows.SessionAssets) (flows.EmailService, error) { return newEmailService(), nil }).
				WithWebhookServiceFactory(webhooks.NewServiceFactory(http.DefaultClient, nil, nil, map[string]string{"User-Agent": "goflow-testing"}, 10000)).
				WithClassificationServiceFactory(func(c *flows.Classifier) (flows.ClassificationService, error) {
					return newClassificationService(c), nil
				}).
				WithAirtimeServiceFactory(func(flows.SessionAssets) (flows.AirtimeService, error) { return newAirtimeService("RWF"), nil }).
				Build()

			report := func(stage string, errs []string, hist []string) {
				for _, e := range errs {
					key := c.assetsFile + "|" + e
					if len(key) > 120 {
						key = key[:120]
					}
					if !seen[key] {
						seen[key] = true
						violations++
						t.Errorf("VIOLATION %s it=%d stage=%s steps=%d maxRes=%d hist=%v: %s", c.assetsFile, it, stage, steps, maxRes, hist, e)
					}
				}
			}

			var hist []string
			func() {
				defer func() {
					if r := recover(); r != nil {
						key := fmt.Sprintf("%s|panic|%v", c.assetsFile, r)
						if !seen[key] {
							seen[key] = true
							t.Errorf("PANIC %s it=%d hist=%v: %v", c.assetsFile, it, hist, r)
						}
					}
				}()
				session, sprint, err := eng.NewSession(sa, trigger)
				if err != nil {
					return
				}
				stats["start:"+string(session.Status())]++
				report("start", huntCheck(sa, session, sprint, map[flows.RunUUID]int{}), hist)

				for k := 0; k < 12 && session.Status() == flows.SessionStatusWaiting; k++ {
					if rnd.Intn(2) == 0 {
						sj, err := jsonx.Marshal(session)
						if err != nil {
							t.Errorf("marshal: %s", err)
							return
						}
						session, err = eng.ReadSession(sa, sj, assets.IgnoreMissing)
						if err != nil {
							t.Errorf("reread %s: %s", c.assetsFile, err)
							return
						}
					}
					before := huntCounts(session)
					var resume flows.Resume
					var contact *flows.Contact
					if rnd.Intn(3) == 0 {
						contact = session.Contact().Clone()
						if rnd.Intn(2) == 0 {
							contact.SetName("Changed")
						}
					}
					switch x := rnd.Intn(10); {
					case x < 5:
						var text string
						if len(c.resumes) > 0 && rnd.Intn(2) == 0 {
							var m struct {
								Msg struct {
									Text string `json:"text"`
								} `json:"msg"`
							}
							json.Unmarshal(c.resumes[rnd.Intn(len(c.resumes))], &m)
							text = m.Msg.Text
						} else {
							text = huntTexts[rnd.Intn(len(huntTexts))]
						}
						msg := flows.NewMsgIn(flows.MsgUUID("9bf91c2b-ce58-4cef-aacc-281e03f69ab5"), urns.URN("tel:+12065551212"), nil, text, nil)
						resume = resumes.NewMsg(nil, contact, msg)
						hist = append(hist, "msg:"+text)
					case x < 7:
						resume = resumes.NewWaitTimeout(nil, contact)
						hist = append(hist, "timeout")
					case x < 9:
						resume = resumes.NewRunExpiration(nil, contact)
						hist = append(hist, "expire")
					default:
						st := []flows.DialStatus{flows.DialStatusAnswered, flows.DialStatusBusy, flows.DialStatusNoAnswer, flows.DialStatusFailed}[rnd.Intn(4)]
						resume = resumes.NewDial(nil, contact, flows.NewDial(st, 5))
						hist = append(hist, "dial")
					}
					sp, err := session.Resume(resume)
					if err != nil {
						stats["rejected"]++
						hist[len(hist)-1] += "(rej)"
						if session.Status() != flows.SessionStatusWaiting {
							// errored call, out of scope
							return
						}
						continue
					}
					stats["resume:"+string(session.Status())]++
					stats[fmt.Sprintf("runs:%d", len(session.Runs()))]++
					report(fmt.Sprintf("resume%d", k), huntCheck(sa, session, sp, before), hist)
				}
			}()
		}
	}
	_ = time.Now
	t.Logf("violations: %d stats %v", violations, stats)
}
