package test

import (
	"encoding/json"
	"fmt"
	"math/rand"
	"os"
	"testing"

	"github.com/nyaruka/gocommon/jsonx"
	"github.com/nyaruka/gocommon/urns"
	"github.com/nyaruka/goflow/assets"
	"github.com/nyaruka/goflow/assets/static"
	"github.com/nyaruka/goflow/envs"
	"github.com/nyaruka/goflow/flows"
	"github.com/nyaruka/goflow/flows/engine"
	"github.com/nyaruka/goflow/flows/resumes"
	"github.com/nyaruka/goflow/flows/triggers"
)

type M = map[string]any

func gu(kind, a, b, c int) string {
	return fmt.Sprintf("%08x-%04x-4000-8000-%012x", kind, a, b*1000+c)
}

var genTypes = []string{"messaging", "voice", "messaging_offline", "messaging_background"}

func genFlow(rnd *rand.Rand, fi int, ftype string, nflows int, ver int) M {
	nn := rnd.Intn(6)
	if rnd.Intn(8) == 0 {
		nn = 0
	}
	nodes := []any{}
	for ni := 0; ni < nn; ni++ {
		dest := func() any {
			if rnd.Intn(4) == 0 || nn == 0 {
				return nil
			}
			return gu(2, fi, 0, rnd.Intn(nn))
		}
		actions := []any{}
		na := []int{0, 0, 1, 1, 1, 2, 3}[rnd.Intn(7)]
		for ai := 0; ai < na; ai++ {
			switch rnd.Intn(4) {
			case 0:
				actions = append(actions, M{"uuid": gu(3, fi, ni*10+ver, ai), "type": "set_run_result", "name": "R", "value": "@input.text", "category": ""})
			default:
				tf := rnd.Intn(nflows)
				if rnd.Intn(12) == 0 {
					tf = nflows
				}
				actions = append(actions, M{"uuid": gu(3, fi, ni*10+ver, ai), "type": "enter_flow", "flow": M{"uuid": gu(1, tf, 0, 0), "name": fmt.Sprintf("F%d", tf)}, "terminal": rnd.Intn(4) == 0})
			}
		}
		node := M{"uuid": gu(2, fi, 0, ni), "actions": actions}
		exits := []any{}
		switch rnd.Intn(4) {
		case 0: // no router
			ne := 1 + rnd.Intn(2)
			for e := 0; e < ne; e++ {
				exits = append(exits, M{"uuid": gu(4, fi, ni*10+ver, e), "destination_uuid": dest()})
			}
		default:
			nc := 1 + rnd.Intn(3)
			cats := []any{}
			for c := 0; c < nc; c++ {
				exits = append(exits, M{"uuid": gu(4, fi, ni*10+ver, c), "destination_uuid": dest()})
				cats = append(cats, M{"uuid": gu(5, fi, ni, c), "name": fmt.Sprintf("C%d", c), "exit_uuid": gu(4, fi, ni*10+ver, c)})
			}
			router := M{"categories": cats}
			if rnd.Intn(3) == 0 {
				router["type"] = "random"
			} else {
				router["type"] = "switch"
				router["operand"] = []string{"@input.text", "@child.status", "@resume.dial.status", "@(1/0)"}[rnd.Intn(4)]
				cases := []any{}
				for c := 0; c < nc-1; c++ {
					cases = append(cases, M{"uuid": gu(6, fi, ni, c), "type": "has_any_word", "arguments": []string{[]string{"a", "b", "completed", "expired", "answered"}[rnd.Intn(5)]}, "category_uuid": gu(5, fi, ni, c)})
				}
				router["cases"] = cases
				if rnd.Intn(5) != 0 {
					router["default_category_uuid"] = gu(5, fi, ni, nc-1)
				}
			}
			if rnd.Intn(5) == 0 {
				router["result_name"] = "Res"
			}
			switch rnd.Intn(5) {
			case 0, 1:
				w := M{"type": "msg"}
				if rnd.Intn(2) == 0 {
					w["timeout"] = M{"seconds": 60, "category_uuid": gu(5, fi, ni, rnd.Intn(nc))}
				}
				router["wait"] = w
			case 2:
				if ftype == "voice" || rnd.Intn(40) == 0 {
					router["wait"] = M{"type": "dial", "phone": []string{"+12065551212", "@input.text", "xyz", "@(1/0)", "2065551212"}[rnd.Intn(5)]}
				}
			}
			node["router"] = router
		}
		node["exits"] = exits
		nodes = append(nodes, node)
	}
	return M{"uuid": gu(1, fi, 0, 0), "name": fmt.Sprintf("F%d", fi), "spec_version": "13.6.0", "language": "eng", "type": ftype, "revision": ver, "expire_after_minutes": rnd.Intn(2) * 10, "localization": M{}, "nodes": nodes}
}

func TestHuntGen(t *testing.T) {
	iters := 3000
	if v := os.Getenv("HUNT_ITERS"); v != "" {
		fmt.Sscanf(v, "%d", &iters)
	}
	seed0 := 0
	if v := os.Getenv("HUNT_SEED"); v != "" {
		fmt.Sscanf(v, "%d", &seed0)
	}
	mutate := os.Getenv("HUNT_MUTATE") != ""
	seen := map[string]bool{}
	stats := map[string]int{}

	for it := 0; it < iters; it++ {
		rnd := rand.New(rand.NewSource(int64(seed0*1000000 + it)))
		stype := genTypes[[]int{0, 0, 1, 1, 2, 3}[rnd.Intn(6)]]
		nflows := 1 + rnd.Intn(4)
		flowsJSON := make([]M, nflows)
		for fi := 0; fi < nflows; fi++ {
			ft := stype
			if fi > 0 && rnd.Intn(15) == 0 {
				ft = genTypes[rnd.Intn(4)]
			}
			flowsJSON[fi] = genFlow(rnd, fi, ft, nflows, 0)
		}
		mk := func(fl []M) (flows.SessionAssets, error) {
			aj, _ := json.Marshal(M{"flows": fl, "channels": []any{M{"uuid": "57f1078f-88aa-46f4-a59a-948a5739c03d", "name": "Ch", "address": "+12345", "schemes": []string{"tel"}, "roles": []string{"send", "receive", "call", "answer"}}}})
			src, err := static.NewSource(aj)
			if err != nil {
				return nil, err
			}
			return engine.NewSessionAssets(envs.NewBuilder().Build(), src, nil)
		}
		sa, err := mk(flowsJSON)
		if err != nil {
			t.Fatalf("assets: %s", err)
		}
		mutated := map[int]bool{}

		steps := []int{1, 2, 3, 5, 8, 30, 100, 100, 100, 100, 100, 100, 100, 100}[rnd.Intn(14)]
		maxRes := []int{0, 1, 2, 3, 500, 500, 500, 500, 500, 500}[rnd.Intn(10)]
		eng := engine.NewBuilder().WithMaxStepsPerSprint(steps).WithMaxResumesPerSession(maxRes).Build()

		contact := flows.NewEmptyContact(sa, "Bob", "eng", nil)
		contact.AddURN(urns.URN("tel:+12065551212"), nil)
		flowRef := assets.NewFlowReference(assets.FlowUUID(gu(1, 0, 0, 0)), "F0")
		var trigger flows.Trigger
		tb := triggers.NewBuilder(envs.NewBuilder().Build(), flowRef, contact)
		call := flows.NewCall(assets.NewChannelReference("57f1078f-88aa-46f4-a59a-948a5739c03d", "Ch"), urns.URN("tel:+12065551212"))
		switch rnd.Intn(3) {
		case 0:
			if stype == "voice" {
				trigger = tb.Manual().WithCall(call.Channel(), call.URN()).Build()
			} else {
				trigger = tb.Manual().Build()
			}
		case 1:
			msg := flows.NewMsgIn(flows.MsgUUID("9bf91c2b-ce58-4cef-aacc-281e03f69ab5"), urns.URN("tel:+12065551212"), nil, "a", nil)
			trigger = tb.Msg(msg).Build()
			if stype == "voice" {
				trigger = tb.Channel(call.Channel(), triggers.ChannelEventTypeIncomingCall).WithCall(call.URN()).Build()
			}
		default:
			if stype == "voice" {
				trigger = tb.Manual().WithCall(call.Channel(), call.URN()).Build()
			} else {
				trigger = tb.Manual().AsBatch().Build()
			}
		}

		var hist []string
		report := func(stage string, errs []string) {
			for _, e := range errs {
				key := e
				if len(key) > 40 {
					key = key[:40]
				}
				if mutate && len(mutated) > 0 {
					key = "MUT|" + key
				}
				if !seen[key] {
					seen[key] = true
					fj, _ := json.Marshal(flowsJSON)
					os.WriteFile(fmt.Sprintf("/tmp/hunt/C01/viol_%d.json", it), fj, 0644)
					t.Errorf("VIOLATION it=%d type=%s stage=%s steps=%d maxRes=%d mutated=%v hist=%v: %s", it, stype, stage, steps, maxRes, mutated, hist, e)
				}
			}
		}

		func() {
			defer func() {
				if r := recover(); r != nil {
					key := fmt.Sprintf("panic|%v", r)
					if !seen[key] {
						seen[key] = true
						fj, _ := json.Marshal(flowsJSON)
						os.WriteFile(fmt.Sprintf("/tmp/hunt/C01/panic_%d.json", it), fj, 0644)
						t.Errorf("PANIC it=%d type=%s hist=%v: %v", it, stype, hist, r)
					}
				}
			}()
			session, sprint, err := eng.NewSession(sa, trigger)
			if err != nil {
				stats["start:err"]++
				return
			}
			stats["start:"+string(session.Status())]++
			report("start", huntCheck(sa, session, sprint, map[flows.RunUUID]int{}))

			for k := 0; k < 10 && session.Status() == flows.SessionStatusWaiting; k++ {
				if rnd.Intn(2) == 0 {
					sj, err := jsonx.Marshal(session)
					if err != nil {
						t.Errorf("marshal: %s", err)
						return
					}
					if mutate && rnd.Intn(3) == 0 {
						fi := rnd.Intn(nflows)
						mutated[fi] = true
						nf := make([]M, 0, nflows)
						for i, f := range flowsJSON {
							if i == fi {
								if rnd.Intn(3) == 0 {
									continue // removed
								}
								f = genFlow(rnd, fi, f["type"].(string), nflows, 1+k)
							}
							nf = append(nf, f)
						}
						flowsJSON = nf
						// keep indexes stable for later mutation: pad not needed, use length
						nflows2 := len(flowsJSON)
						_ = nflows2
						sa, err = mk(flowsJSON)
						if err != nil {
							t.Fatalf("assets: %s", err)
						}
						hist = append(hist, fmt.Sprintf("MUT%d", fi))
					}
					session, err = eng.ReadSession(sa, sj, assets.IgnoreMissing)
					if err != nil {
						stats["reread:err"]++
						return
					}
				}
				before := huntCounts(session)
				var resume flows.Resume
				var rc *flows.Contact
				if rnd.Intn(3) == 0 {
					rc = session.Contact().Clone()
					if rnd.Intn(2) == 0 {
						rc.SetName("Changed")
					}
				}
				switch x := rnd.Intn(10); {
				case x < 4:
					text := []string{"a", "b", "", "c", "+12065551213", "a b"}[rnd.Intn(6)]
					msg := flows.NewMsgIn(flows.MsgUUID("9bf91c2b-ce58-4cef-aacc-281e03f69ab5"), urns.URN("tel:+12065551212"), nil, text, nil)
					resume = resumes.NewMsg(nil, rc, msg)
					hist = append(hist, "msg:"+text)
				case x < 6:
					resume = resumes.NewWaitTimeout(nil, rc)
					hist = append(hist, "timeout")
				case x < 8:
					resume = resumes.NewRunExpiration(nil, rc)
					hist = append(hist, "expire")
				default:
					st := []flows.DialStatus{flows.DialStatusAnswered, flows.DialStatusBusy, flows.DialStatusNoAnswer, flows.DialStatusFailed}[rnd.Intn(4)]
					resume = resumes.NewDial(nil, rc, flows.NewDial(st, 5))
					hist = append(hist, "dial")
				}
				sp, err := session.Resume(resume)
				if err != nil {
					stats["rejected"]++
					hist[len(hist)-1] += "(rej)"
					if session.Status() != flows.SessionStatusWaiting {
						stats["resume:err-nonwaiting"]++
						return
					}
					continue
				}
				stats["resume:"+string(session.Status())]++
				stats[fmt.Sprintf("runs:%d", len(session.Runs()))]++
				errs := huntCheck(sa, session, sp, before)
				if len(mutated) > 0 {
					// path walk clauses are meaningless against changed graphs
					var keep []string
					for _, e := range errs {
						if !(len(e) > 4 && e[:4] == "run " && (contains(e, "node not in flow") || contains(e, "exit not of node") || contains(e, "exit leads to") || contains(e, "lacks exit"))) {
							keep = append(keep, e)
						}
					}
					errs = keep
				}
				report(fmt.Sprintf("resume%d", k), errs)
			}
		}()
	}
	t.Logf("stats %v", stats)
}

func contains(s, sub string) bool {
	for i := 0; i+len(sub) <= len(s); i++ {
		if s[i:i+len(sub)] == sub {
			return true
		}
	}
	return false
}
