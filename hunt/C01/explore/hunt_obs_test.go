package test

import (
	"testing"

	"github.com/nyaruka/goflow/assets"
	"github.com/nyaruka/goflow/assets/static"
	"github.com/nyaruka/goflow/envs"
	"github.com/nyaruka/goflow/flows"
	"github.com/nyaruka/goflow/flows/engine"
	"github.com/nyaruka/goflow/flows/resumes"
	"github.com/nyaruka/goflow/flows/triggers"
)

func TestHuntObs(t *testing.T) {
	aj := `{"flows":[
{"uuid":"00000001-0000-4000-8000-000000000000","name":"A","spec_version":"13.6.0","language":"eng","type":"messaging","nodes":[
 {"uuid":"00000002-0000-4000-8000-000000000001","actions":[{"uuid":"00000003-0000-4000-8000-000000000001","type":"enter_flow","flow":{"uuid":"00000001-0000-4000-8000-000000000001","name":"B"}}],"exits":[{"uuid":"00000004-0000-4000-8000-000000000001","destination_uuid":"00000002-0000-4000-8000-000000000002"}]},
 {"uuid":"00000002-0000-4000-8000-000000000002","actions":[{"uuid":"00000003-0000-4000-8000-000000000002","type":"enter_flow","terminal":true,"flow":{"uuid":"00000001-0000-4000-8000-000000000001","name":"B"}}],"exits":[{"uuid":"00000004-0000-4000-8000-000000000002"}]}
]},
{"uuid":"00000001-0000-4000-8000-000000000001","name":"B","spec_version":"13.6.0","language":"eng","type":"messaging","nodes":[
 {"uuid":"00000002-0000-4000-8000-000000000011","actions":[],"router":{"type":"switch","operand":"@input.text","wait":{"type":"msg"},"categories":[{"uuid":"00000005-0000-4000-8000-000000000001","name":"All","exit_uuid":"00000004-0000-4000-8000-000000000011"}],"cases":[],"default_category_uuid":"00000005-0000-4000-8000-000000000001"},"exits":[{"uuid":"00000004-0000-4000-8000-000000000011"}]}
]}]}`
	src, _ := static.NewSource([]byte(aj))
	sa, err := engine.NewSessionAssets(envs.NewBuilder().Build(), src, nil)
	if err != nil {
		t.Fatal(err)
	}
	contact := flows.NewEmptyContact(sa, "Bob", "eng", nil)
	tr := triggers.NewBuilder(envs.NewBuilder().Build(), assets.NewFlowReference("00000001-0000-4000-8000-000000000000", "A"), contact).Manual().Build()
	s, _, err := engine.NewBuilder().Build().NewSession(sa, tr)
	if err != nil {
		t.Fatal(err)
	}
	_, err = s.Resume(resumes.NewRunExpiration(nil, nil))
	if err != nil {
		t.Fatal(err)
	}
	for i, r := range s.Runs() {
		t.Logf("run %d flow %s status %s exited %v events %d", i, r.FlowReference().Name, r.Status(), r.ExitedOn(), len(r.Events()))
	}
	t.Logf("session %s", s.Status())
}
