package cases_test

import (
	"testing"

	"github.com/nyaruka/goflow/envs"
	"github.com/nyaruka/goflow/excellent"
	"github.com/nyaruka/goflow/excellent/types"
	_ "github.com/nyaruka/goflow/flows/routers/cases"
	"github.com/shopspring/decimal"
	"github.com/stretchr/testify/assert"
)

// A workspace that writes numbers as 1.234,5 (number_format {"decimal_symbol": ",", "digit_grouping_symbol": "."} in
// the environment JSON). The operand of a router's numeric test is a number value - a number contact field, a
// calculation - and reaches the test as its canonical text ("1234.5"), which the test converts back to a number
// with the symbols of the environment.
func TestHuntNumberOperandOfNumericTests(t *testing.T) {
	env := envs.NewBuilder().WithNumberFormat(&envs.NumberFormat{DecimalSymbol: ",", DigitGroupingSymbol: "."}).Build()
	ctx := types.NewXObject(map[string]types.XValue{
		"fields": types.NewXObject(map[string]types.XValue{"balance": types.NewXNumber(decimal.RequireFromString("1234.5"))}),
	})

	tcs := []struct {
		expression string
		expected   string
	}{
		{`has_number(fields.balance).match`, `1234.5`},
		{`has_number_eq(fields.balance, 1234.5)`, `true`},
		{`has_number_lt(fields.balance, 2000)`, `true`},
		{`has_number_between(fields.balance / 1000, 1, 2)`, `true`},
		{`has_number_eq(3 / 2, 1.5)`, `true`},
		{`has_number_gt(0.5, 1)`, `false`},
	}
	for _, tc := range tcs {
		val, _ := excellent.NewEvaluator().Expression(env, ctx, tc.expression)
		actual, _ := types.ToXText(env, val)
		assert.Equal(t, tc.expected, actual.Native(), "mismatch for %s", tc.expression)
	}
}
