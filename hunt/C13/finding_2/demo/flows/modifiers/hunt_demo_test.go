package modifiers_test

import (
	"strings"
	"testing"

	"github.com/nyaruka/goflow/assets/static"
	"github.com/nyaruka/goflow/envs"
	"github.com/nyaruka/goflow/flows"
	"github.com/nyaruka/goflow/flows/engine"
	"github.com/nyaruka/goflow/flows/modifiers"
	"github.com/stretchr/testify/assert"
	"github.com/stretchr/testify/require"
)

// The text that a contact field carries and the number / datetime stored next to it have to be the same value:
// re-reading the stored text (what FieldValues.Parse does for every new value) has to give the stored typed values.
func TestHuntFieldTypedValuesMatchStoredText(t *testing.T) {
	env := envs.NewBuilder().Build()
	source, err := static.NewSource([]byte(`{"fields": [
		{"uuid": "f1b5aea6-6586-41c7-9020-1a6326cc6565", "key": "balance", "name": "Balance", "type": "number"},
		{"uuid": "6c6e6d52-49b3-4f8c-bb16-ea3e4b1e7b44", "key": "joined", "name": "Joined", "type": "datetime"}
	]}`))
	require.NoError(t, err)
	sa, err := engine.NewSessionAssets(env, source, nil)
	require.NoError(t, err)

	eng := engine.NewBuilder().Build() // default options: MaxFieldChars = 640
	contact := flows.NewEmptyContact(sa, "Bob", "eng", nil)
	noLog := func(flows.Event) {}

	// a whole number of 641 digits: 1 followed by 640 zeros
	balance := sa.Fields().Get("balance")
	modifiers.Apply(eng, env, sa, contact, modifiers.NewField(balance, "1"+strings.Repeat("0", 640)), noLog)

	stored := contact.Fields().Get(balance)
	require.NotNil(t, stored)
	reread := contact.Fields().Parse(env, sa.Fields(), balance, stored.Text.Native())
	assert.Equal(t, 640, len(stored.Text.Native()))
	assert.True(t, reread.Number.Equals(stored.Number), "stored text is a number of %d digits, stored number has %d digits (10 times as much)",
		len(reread.Number.Render()), len(stored.Number.Render()))

	// a long answer that mentions a date after the 640th character
	joined := sa.Fields().Get("joined")
	modifiers.Apply(eng, env, sa, contact, modifiers.NewField(joined, strings.Repeat("I don't remember. ", 40)+"Maybe 2019-05-06?"), noLog)

	stored = contact.Fields().Get(joined)
	require.NotNil(t, stored)
	reread = contact.Fields().Parse(env, sa.Fields(), joined, stored.Text.Native())
	if reread.Datetime == nil && stored.Datetime != nil {
		t.Errorf("stored text has no date in it, stored datetime is %s", stored.Datetime.Render())
	}

}
