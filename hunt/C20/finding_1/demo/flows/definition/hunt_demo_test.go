package definition_test

import (
	"encoding/json"
	"strings"
	"testing"

	"github.com/nyaruka/gocommon/jsonx"
	"github.com/nyaruka/goflow/assets"
	"github.com/nyaruka/goflow/assets/static"
	"github.com/nyaruka/goflow/envs"
	"github.com/nyaruka/goflow/flows"
	"github.com/nyaruka/goflow/flows/engine"
	"github.com/nyaruka/goflow/flows/triggers"
)

// C20: "every fixed (non-expression) asset a run's actions and templates touch - groups, fields, ... - is listed
// as a dependency". @run.contact is a documented context path (flows/runs/run.go, "contact:contact -> the contact
// of the run") so @run.contact.fields.gender reads the contact field "gender" exactly like @contact.fields.gender
// does, yet only the latter is recognised by flows/inspect/templates.go (fieldRefPaths).
const huntRunContactAssets = `{
	"fields": [
		{"uuid": "d66a7823-eada-40e5-9a3a-57239d4690bf", "key": "gender", "name": "Gender", "type": "text"}
	],
	"flows": [
		{
			"uuid": "7c3db26f-e12a-48af-9673-e2feefdf8516",
			"name": "Via run.contact",
			"spec_version": "13.1.0",
			"language": "eng",
			"type": "messaging",
			"nodes": [
				{
					"uuid": "6cbd5ab6-2c1b-4ab4-bbd5-0b4a4ae4fc0d",
					"actions": [
						{"uuid": "f01d693b-2af2-49fb-9e38-146eb00937e9", "type": "send_msg", "text": "You are @run.contact.fields.gender"}
					],
					"exits": [{"uuid": "d7a36118-0a38-4b35-a7e4-ae89042f0d3c"}]
				}
			]
		},
		{
			"uuid": "8c3db26f-e12a-48af-9673-e2feefdf8516",
			"name": "Via contact",
			"spec_version": "13.1.0",
			"language": "eng",
			"type": "messaging",
			"nodes": [
				{
					"uuid": "7cbd5ab6-2c1b-4ab4-bbd5-0b4a4ae4fc0d",
					"actions": [
						{"uuid": "e01d693b-2af2-49fb-9e38-146eb00937e9", "type": "send_msg", "text": "You are @contact.fields.gender"}
					],
					"exits": [{"uuid": "e7a36118-0a38-4b35-a7e4-ae89042f0d3c"}]
				}
			]
		}
	]
}`

const huntRunContactContact = `{
	"uuid": "5d76d86b-3bb9-4d5a-b822-c9d86f5d8e4f",
	"name": "Bob",
	"status": "active",
	"created_on": "2020-01-01T12:00:00Z",
	"fields": {"gender": {"text": "Male"}}
}`

func huntRunAndInspect(t *testing.T, flowUUID assets.FlowUUID) (msgText string, deps []string) {
	env := envs.NewBuilder().Build()
	source, err := static.NewSource([]byte(huntRunContactAssets))
	if err != nil {
		t.Fatal(err)
	}
	sa, err := engine.NewSessionAssets(env, source, nil)
	if err != nil {
		t.Fatal(err)
	}
	flow, err := sa.Flows().Get(flowUUID)
	if err != nil {
		t.Fatal(err)
	}
	contact, err := flows.ReadContact(sa, []byte(huntRunContactContact), assets.PanicOnMissing)
	if err != nil {
		t.Fatal(err)
	}

	// what static inspection says
	for _, d := range flow.Inspect(sa).Dependencies {
		deps = append(deps, d.Reference().Type()+":"+d.Reference().Identity())
	}

	// what a run does
	eng := engine.NewBuilder().Build()
	_, sprint, err := eng.NewSession(sa, triggers.NewBuilder(env, flow.Reference(false), contact).Manual().Build())
	if err != nil {
		t.Fatal(err)
	}
	for _, e := range sprint.Events() {
		if e.Type() == "msg_created" {
			var ev struct {
				Msg struct {
					Text string `json:"text"`
				} `json:"msg"`
			}
			jsonx.MustUnmarshal(jsonx.MustMarshal(e), &ev)
			msgText = ev.Msg.Text
		}
	}
	return msgText, deps
}

func TestHuntC20RunContactFieldNotADependency(t *testing.T) {
	// control: the same flow written with @contact.fields.gender lists the field
	text, deps := huntRunAndInspect(t, "8c3db26f-e12a-48af-9673-e2feefdf8516")
	if text != "You are Male" || strings.Join(deps, ",") != "field:gender" {
		t.Fatalf("control: text=%q deps=%v", text, deps)
	}

	text, deps = huntRunAndInspect(t, "7c3db26f-e12a-48af-9673-e2feefdf8516")
	if text != "You are Male" {
		t.Fatalf("run did not read the field: text=%q", text)
	}
	// the run read contact field "gender" (its value is in the message) so inspection must list it
	if strings.Join(deps, ",") != "field:gender" {
		d, _ := json.Marshal(deps)
		t.Errorf("run evaluated @run.contact.fields.gender to %q (read field 'gender') but Inspect().dependencies = %s", "Male", d)
	}
}
