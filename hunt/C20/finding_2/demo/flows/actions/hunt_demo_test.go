package actions_test

import (
	"encoding/json"
	"testing"

	"github.com/nyaruka/gocommon/jsonx"
	"github.com/nyaruka/goflow/assets"
	"github.com/nyaruka/goflow/assets/static"
	"github.com/nyaruka/goflow/envs"
	"github.com/nyaruka/goflow/flows"
	"github.com/nyaruka/goflow/flows/engine"
	"github.com/nyaruka/goflow/flows/triggers"
)

// C20: "every fixed (non-expression) asset a run's actions and templates touch - groups, fields, labels, flows,
// channels, topics, users, ... - is listed as a dependency".
// An open_ticket action without a topic looks the topic asset named "General" up (hard coded, open_ticket.go:64)
// and opens the ticket with it: the run's ticket_opened event carries that topic, inspection lists no topic.
const huntDefaultTopicAssets = `{
	"topics": [
		{"uuid": "0d9a2c56-6fc2-4f27-93c5-a6322e26b740", "name": "General"},
		{"uuid": "472a7a73-96cb-4736-b567-056d987cc5b4", "name": "Weather"}
	],
	"flows": [
		{
			"uuid": "7c3db26f-e12a-48af-9673-e2feefdf8516",
			"name": "Ticket",
			"spec_version": "13.1.0",
			"language": "eng",
			"type": "messaging",
			"nodes": [
				{
					"uuid": "6cbd5ab6-2c1b-4ab4-bbd5-0b4a4ae4fc0d",
					"actions": [
						{"uuid": "f01d693b-2af2-49fb-9e38-146eb00937e9", "type": "open_ticket", "body": "Help", "result_name": "Ticket"}
					],
					"exits": [{"uuid": "d7a36118-0a38-4b35-a7e4-ae89042f0d3c"}]
				}
			]
		}
	]
}`

func TestHuntC20DefaultTopicNotADependency(t *testing.T) {
	env := envs.NewBuilder().Build()
	source, err := static.NewSource([]byte(huntDefaultTopicAssets))
	if err != nil {
		t.Fatal(err)
	}
	sa, err := engine.NewSessionAssets(env, source, nil)
	if err != nil {
		t.Fatal(err)
	}
	flow, err := sa.Flows().Get("7c3db26f-e12a-48af-9673-e2feefdf8516")
	if err != nil {
		t.Fatal(err)
	}
	contact, err := flows.ReadContact(sa, []byte(`{"uuid": "5d76d86b-3bb9-4d5a-b822-c9d86f5d8e4f", "name": "Bob", "status": "active", "created_on": "2020-01-01T12:00:00Z"}`), assets.PanicOnMissing)
	if err != nil {
		t.Fatal(err)
	}

	listed := map[string]bool{}
	for _, d := range flow.Inspect(sa).Dependencies {
		listed[d.Reference().Type()+":"+d.Reference().Identity()] = true
	}

	_, sprint, err := engine.NewBuilder().Build().NewSession(sa, triggers.NewBuilder(env, flow.Reference(false), contact).Manual().Build())
	if err != nil {
		t.Fatal(err)
	}

	opened := false
	for _, e := range sprint.Events() {
		if e.Type() != "ticket_opened" {
			continue
		}
		opened = true
		var ev struct {
			Ticket struct {
				Topic struct {
					UUID string `json:"uuid"`
					Name string `json:"name"`
				} `json:"topic"`
			} `json:"ticket"`
		}
		jsonx.MustUnmarshal(jsonx.MustMarshal(e), &ev)

		if !listed["topic:"+ev.Ticket.Topic.UUID] {
			deps, _ := json.Marshal(flow.Inspect(sa).Dependencies)
			t.Errorf("run opened a ticket with topic asset %s (%q) but Inspect().dependencies = %s", ev.Ticket.Topic.UUID, ev.Ticket.Topic.Name, deps)
		}
	}
	if !opened {
		t.Fatal("no ticket_opened event")
	}
}
