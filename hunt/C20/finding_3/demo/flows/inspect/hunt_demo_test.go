package inspect_test

import (
	"encoding/json"
	"testing"

	"github.com/nyaruka/gocommon/jsonx"
	"github.com/nyaruka/goflow/assets"
	"github.com/nyaruka/goflow/assets/static"
	"github.com/nyaruka/goflow/envs"
	"github.com/nyaruka/goflow/flows"
	"github.com/nyaruka/goflow/flows/engine"
	"github.com/nyaruka/goflow/flows/triggers"
)

// C20: "every fixed (non-expression) asset a run's actions and templates touch - groups, ... - is listed as a
// dependency". A group can be named by a literal (expression-free) string in two places: legacy_vars of
// send_broadcast / start_session (resolved with Groups().FindByName, actions/base.go:237) and name_match of a group
// reference (actions/base.go:282-285). The run resolves the group asset and acts on it; inspection lists nothing.
const huntLiteralGroupAssets = `{
	"groups": [
		{"uuid": "b7cf0d83-f1c9-411c-96fd-c511a4cfa86d", "name": "Testers"}
	],
	"flows": [
		{
			"uuid": "7c3db26f-e12a-48af-9673-e2feefdf8516",
			"name": "Literal group names",
			"spec_version": "13.1.0",
			"language": "eng",
			"type": "messaging",
			"nodes": [
				{
					"uuid": "6cbd5ab6-2c1b-4ab4-bbd5-0b4a4ae4fc0d",
					"actions": [
						{"uuid": "f01d693b-2af2-49fb-9e38-146eb00937e9", "type": "send_broadcast", "text": "Hi all", "legacy_vars": ["Testers"]},
						{"uuid": "e01d693b-2af2-49fb-9e38-146eb00937e9", "type": "add_contact_groups", "groups": [{"name_match": "Testers"}]}
					],
					"exits": [{"uuid": "d7a36118-0a38-4b35-a7e4-ae89042f0d3c"}]
				}
			]
		}
	]
}`

func TestHuntC20GroupNamedByLiteralNotADependency(t *testing.T) {
	env := envs.NewBuilder().Build()
	source, err := static.NewSource([]byte(huntLiteralGroupAssets))
	if err != nil {
		t.Fatal(err)
	}
	sa, err := engine.NewSessionAssets(env, source, nil)
	if err != nil {
		t.Fatal(err)
	}
	flow, err := sa.Flows().Get("7c3db26f-e12a-48af-9673-e2feefdf8516")
	if err != nil {
		t.Fatal(err)
	}
	contact, err := flows.ReadContact(sa, []byte(`{"uuid": "5d76d86b-3bb9-4d5a-b822-c9d86f5d8e4f", "name": "Bob", "status": "active", "created_on": "2020-01-01T12:00:00Z"}`), assets.PanicOnMissing)
	if err != nil {
		t.Fatal(err)
	}

	insp := flow.Inspect(sa)
	listed := map[string]bool{}
	for _, d := range insp.Dependencies {
		listed[d.Reference().Type()+":"+d.Reference().Identity()] = true
	}
	deps, _ := json.Marshal(insp.Dependencies)

	_, sprint, err := engine.NewBuilder().Build().NewSession(sa, triggers.NewBuilder(env, flow.Reference(false), contact).Manual().Build())
	if err != nil {
		t.Fatal(err)
	}

	type ref struct {
		UUID string `json:"uuid"`
		Name string `json:"name"`
	}
	seen := 0
	for _, e := range sprint.Events() {
		var ev struct {
			Groups      []ref `json:"groups"`       // broadcast_created
			GroupsAdded []ref `json:"groups_added"` // contact_groups_changed
		}
		jsonx.MustUnmarshal(jsonx.MustMarshal(e), &ev)
		for _, g := range append(ev.Groups, ev.GroupsAdded...) {
			seen++
			if !listed["group:"+g.UUID] {
				t.Errorf("event %s carries group asset %s (%q), named by an expression-free string in the definition, but Inspect().dependencies = %s", e.Type(), g.UUID, g.Name, deps)
			}
		}
	}
	if seen != 2 {
		t.Fatalf("expected the run to touch the group twice, got %d", seen)
	}
}
