package engine_test

// Demo for property C02 (persisting a session between waits is transparent). Self-contained: drop this file into
// flows/engine/ and run   go test -vet=off -count=1 -run TestHuntDemo ./flows/engine/
//
// The helper runs one scenario twice with identical clock, UUID and random sources: once keeping the session object alive
// between the waits, once marshalling it and reading it back with Engine.ReadSession before every resume. It fails when
// re-marshalling differs (clause 1), when the session cannot be read back, or when the events / segments / resulting
// session JSON of any call differ between the two executions (clause 2).

import (
	"fmt"
	"strings"
	"testing"
	"time"

	"github.com/nyaruka/gocommon/dates"
	"github.com/nyaruka/gocommon/jsonx"
	"github.com/nyaruka/gocommon/random"
	"github.com/nyaruka/gocommon/urns"
	"github.com/nyaruka/gocommon/uuids"
	"github.com/nyaruka/goflow/assets"
	"github.com/nyaruka/goflow/assets/static"
	"github.com/nyaruka/goflow/envs"
	"github.com/nyaruka/goflow/flows"
	"github.com/nyaruka/goflow/flows/engine"
	"github.com/nyaruka/goflow/flows/resumes"
	"github.com/nyaruka/goflow/flows/triggers"
	"github.com/nyaruka/goflow/test"
)

var _ = strings.Repeat
var _ = urns.NilURN

const demoFlowUUID = "00000005-0000-4000-8000-000000000000"

type demoNode struct {
	actions []string // action JSON (uuid is added)
	wait    bool     // node ends in a wait for a message
}

// builds a linear messaging flow: every node runs its actions, optionally waits for a message, then goes to the next node
func demoFlow(nodes ...demoNode) string {
	var ns []string
	for i, n := range nodes {
		var acts []string
		for j, a := range n.actions {
			acts = append(acts, fmt.Sprintf(`{"uuid":"00000002-0000-4000-8000-%04x%08x",%s`, i, j, a[1:]))
		}
		dest, router := "", ""
		if i+1 < len(nodes) {
			dest = fmt.Sprintf(`,"destination_uuid":"00000001-0000-4000-8000-%012x"`, i+1)
		}
		if n.wait {
			router = fmt.Sprintf(`,"router":{"type":"switch","wait":{"type":"msg"},"result_name":"R%d","operand":"@input.text","cases":[],"categories":[{"uuid":"00000003-0000-4000-8000-%012x","name":"All","exit_uuid":"00000004-0000-4000-8000-%012x"}],"default_category_uuid":"00000003-0000-4000-8000-%012x"}`, i, i, i, i)
		}
		ns = append(ns, fmt.Sprintf(`{"uuid":"00000001-0000-4000-8000-%012x","actions":[%s]%s,"exits":[{"uuid":"00000004-0000-4000-8000-%012x"%s}]}`,
			i, strings.Join(acts, ","), router, i, dest))
	}
	return fmt.Sprintf(`{"uuid":"%s","name":"Demo","spec_version":"13.5.0","language":"eng","type":"messaging","nodes":[%s]}`, demoFlowUUID, strings.Join(ns, ","))
}

type demoScenario struct {
	env      envs.Environment
	assets   string                                      // assets JSON
	resumes  []func(sa flows.SessionAssets) flows.Resume // one per wait
	rejectOK bool                                        // a flow definition that is rejected when read is an acceptable outcome
}

func demoMsg(text string) func(flows.SessionAssets) flows.Resume {
	return func(flows.SessionAssets) flows.Resume {
		return resumes.NewMsg(nil, nil, flows.NewMsgIn("0c1b2f4e-0000-4000-8000-000000000001", urns.URN("tel:+12065551212"), nil, text, nil))
	}
}

// runs the scenario; returns for every engine call the sprint (events + segments) and the resulting session JSON
func demoRun(t *testing.T, sc *demoScenario, restart bool) (sprints, sessions []string) {
	uuids.SetGenerator(uuids.NewSeededGenerator(123456, dates.NewSequentialNow(time.Date(2024, 1, 1, 0, 0, 0, 0, time.UTC), time.Second)))
	dates.SetNowFunc(dates.NewSequentialNow(time.Date(2024, 1, 15, 12, 0, 0, 0, time.UTC), time.Second))
	random.SetGenerator(random.NewSeededGenerator(123456))
	defer uuids.SetGenerator(uuids.DefaultGenerator)
	defer dates.SetNowFunc(time.Now)
	defer random.SetGenerator(random.DefaultGenerator)

	src, err := static.NewSource([]byte(sc.assets))
	if err != nil {
		t.Fatalf("assets: %s", err)
	}
	sa, err := engine.NewSessionAssets(envs.NewBuilder().Build(), src, nil)
	if err != nil {
		t.Fatalf("session assets: %s", err)
	}
	contact, err := flows.ReadContact(sa, []byte(`{"uuid":"5d76d86b-3bb9-4d5a-b822-c9d86f5d8e4f","name":"Bob","language":"eng","status":"active","created_on":"2020-01-01T12:00:00Z","urns":["tel:+12065551212"]}`), assets.PanicOnMissing)
	if err != nil {
		t.Fatal(err)
	}
	env := sc.env
	if env == nil {
		env = envs.NewBuilder().WithAllowedLanguages("eng").WithDefaultCountry("US").Build()
	}
	eng := test.NewEngine()
	record := func(s flows.Session, sp flows.Sprint, err error) {
		if err != nil {
			sprints = append(sprints, "ERROR: "+err.Error())
		} else {
			sprints = append(sprints, fmt.Sprintf("events=%s segments=%s", jsonx.MustMarshal(sp.Events()), jsonx.MustMarshal(sp.Segments())))
		}
		sessions = append(sessions, string(jsonx.MustMarshal(s)))
	}

	session, sprint, err := eng.NewSession(sa, triggers.NewBuilder(env, assets.NewFlowReference(demoFlowUUID, "Demo"), contact).Manual().Build())
	if err != nil && sc.rejectOK {
		t.Skipf("no session to persist, the flow is rejected when it is read: %s", err)
	} else if err != nil {
		t.Fatalf("start: %s", err)
	}
	record(session, sprint, nil)

	for i, mk := range sc.resumes {
		if restart {
			marshalled := jsonx.MustMarshal(session)
			session, err = eng.ReadSession(sa, marshalled, assets.IgnoreMissing)
			if err != nil {
				t.Errorf("before resume %d: the marshalled session cannot be read back: %s", i+1, err)
				return
			}
			if again := jsonx.MustMarshal(session); string(again) != string(marshalled) {
				t.Errorf("before resume %d: clause 1: marshal -> ReadSession -> marshal is not the same JSON\nfirst:  %s\nsecond: %s", i+1, demoDiff(string(marshalled), string(again)), demoDiff(string(again), string(marshalled)))
			}
		}
		sprint, err := session.Resume(mk(sa))
		record(session, sprint, err)
	}
	return
}

// the part of a around the first byte where it differs from b
func demoDiff(a, b string) string {
	i := 0
	for i < len(a) && i < len(b) && a[i] == b[i] {
		i++
	}
	return fmt.Sprintf("...%q...", a[max(0, i-60):min(len(a), i+60)])
}

func demoCompare(t *testing.T, sc *demoScenario) {
	keptSprints, keptSessions := demoRun(t, sc, false)
	restSprints, restSessions := demoRun(t, sc, true)
	for i := range keptSprints {
		if i >= len(restSprints) {
			t.Errorf("call %d was only possible on the kept-alive session", i)
			break
		}
		if keptSprints[i] != restSprints[i] {
			t.Errorf("call %d: clause 2: events/segments differ\nkept alive: %s\nrestarted:  %s", i, demoDiff(keptSprints[i], restSprints[i]), demoDiff(restSprints[i], keptSprints[i]))
		}
		if keptSessions[i] != restSessions[i] {
			t.Errorf("call %d: clause 2: resulting session JSON differs\nkept alive: %s\nrestarted:  %s", i, demoDiff(keptSessions[i], restSessions[i]), demoDiff(restSessions[i], keptSessions[i]))
		}
	}
}

// Finding 7: a datetime contact field keeps nanoseconds in the live session but is persisted with microseconds.
func TestHuntDemoFieldDatetimeNanos(t *testing.T) {
	demoCompare(t, &demoScenario{
		assets: `{"flows":[` + demoFlow(
			demoNode{actions: []string{`{"type":"send_msg","text":"When?"}`}, wait: true},
			demoNode{actions: []string{`{"type":"set_contact_field","field":{"key":"joined","name":"Joined"},"value":"@input.text"}`}, wait: true},
			demoNode{actions: []string{`{"type":"send_msg","text":"@(epoch(fields.joined)) @(format_datetime(fields.joined, \"fffffffff\"))"}`}},
		) + `],"fields":[{"uuid":"d66a7823-eada-40e5-9a3a-57239d4690bf","key":"joined","name":"Joined","type":"datetime"}]}`,
		resumes: []func(flows.SessionAssets) flows.Resume{demoMsg("2024-01-15T10:00:00.123456789Z"), demoMsg("ok")},
	})
}
