package engine_test

import (
	"fmt"
	"strings"
	"testing"

	"github.com/nyaruka/gocommon/jsonx"
	"github.com/nyaruka/gocommon/urns"
	"github.com/nyaruka/goflow/assets"
	"github.com/nyaruka/goflow/flows"
	"github.com/nyaruka/goflow/flows/resumes"
	"github.com/nyaruka/goflow/test"
	"github.com/stretchr/testify/assert"
	"github.com/stretchr/testify/require"
)

// A flow with a message wait followed by a node that speaks to the contact. %[1]s is the flow type and %[2]s the
// type of the action which follows the wait.
const huntC10FlowTpl = `{
	"flows": [
		{
			"uuid": "76f0a02f-3b75-4b86-9064-e9195e1b3a02",
			"name": "Ask",
			"spec_version": "13.0",
			"language": "eng",
			"type": "%[1]s",
			"nodes": [
				{
					"uuid": "46d51f50-58de-49da-8d13-dadbf322685d",
					"router": {
						"type": "switch",
						"wait": {"type": "msg"},
						"categories": [
							{"uuid": "598ae7a5-2f81-48f1-afac-595262514aa1", "name": "All", "exit_uuid": "a0d84faf-284d-43e5-a3f8-63891c454e20"}
						],
						"default_category_uuid": "598ae7a5-2f81-48f1-afac-595262514aa1",
						"operand": "@input.text",
						"cases": []
					},
					"exits": [
						{"uuid": "a0d84faf-284d-43e5-a3f8-63891c454e20", "destination_uuid": "11a772f3-3ca2-4429-8b33-20fdcfc2b69e"}
					]
				},
				{
					"uuid": "11a772f3-3ca2-4429-8b33-20fdcfc2b69e",
					"actions": [
						{"uuid": "d2a4052a-3fa9-4608-ab3e-5b9631440447", "type": "%[2]s", "text": "Thanks!"}
					],
					"exits": [
						{"uuid": "cee79a7f-51fd-414a-a9fb-f9c1f1baf186"}
					]
				}
			]
		}
	]
}`

// Between two sprints the flow is replaced by a revision of type voice (e.g. re-imported). The session was started
// without a call, so it can no longer be resumed: the property says such a session must end as failed with a failure
// event, never with a Go error or panic.
func TestHuntC10ResumeAfterFlowBecameVoice(t *testing.T) {
	messagingAssets := []byte(fmt.Sprintf(huntC10FlowTpl, "messaging", "send_msg"))
	voiceAssets := []byte(fmt.Sprintf(huntC10FlowTpl, "voice", "say_msg"))

	// sprint 1: messaging flow, session waits for a message
	_, session1, _ := test.NewSessionBuilder().WithAssetsJSON(messagingAssets).WithFlow("76f0a02f-3b75-4b86-9064-e9195e1b3a02").MustBuild()
	require.Equal(t, flows.SessionStatusWaiting, session1.Status())
	require.Equal(t, flows.FlowTypeMessaging, session1.Type())

	sessionJSON, err := jsonx.Marshal(session1)
	require.NoError(t, err)

	// sprint 2: same flow UUID, same waiting node, but the flow is now a voice flow
	sa, err := test.CreateSessionAssets(voiceAssets, "")
	require.NoError(t, err)

	session2, err := session1.Engine().ReadSession(sa, sessionJSON, assets.IgnoreMissing)
	require.NoError(t, err)
	require.Equal(t, flows.SessionStatusWaiting, session2.Status())

	msg := flows.NewMsgIn("2d611e17-fb22-457f-b802-b8f7ec5cda5b", urns.URN("tel:+12065551212"), nil, "hi", nil)

	var sprint flows.Sprint
	panicked := func() (p any) {
		defer func() { p = recover() }()
		sprint, err = session2.Resume(resumes.NewMsg(nil, nil, msg))
		return nil
	}()

	require.Nil(t, panicked, "Resume panicked instead of failing the session")
	require.NoError(t, err, "Resume returned a Go error instead of failing the session")

	assert.Equal(t, flows.SessionStatusFailed, session2.Status())

	types := make([]string, len(sprint.Events()))
	for i, e := range sprint.Events() {
		types[i] = e.Type()
	}
	assert.Contains(t, types, "failure", "events were: %s", strings.Join(types, ","))
}
