package engine_test

import (
	"testing"
	"time"

	"github.com/nyaruka/gocommon/dates"
	"github.com/nyaruka/gocommon/jsonx"
	"github.com/nyaruka/gocommon/random"
	"github.com/nyaruka/gocommon/urns"
	"github.com/nyaruka/gocommon/uuids"
	"github.com/nyaruka/goflow/assets"
	"github.com/nyaruka/goflow/assets/static"
	"github.com/nyaruka/goflow/envs"
	"github.com/nyaruka/goflow/flows"
	"github.com/nyaruka/goflow/flows/engine"
	"github.com/nyaruka/goflow/flows/triggers"
)

// a flow which reads the time the contact sent using the layout tt:mm (which is also the default time
// format of an environment)
const hunt3Assets = `{
  "flows": [
    {
      "uuid": "11111111-1111-4111-8111-111111111111",
      "name": "Parse Time",
      "spec_version": "13.1.0",
      "language": "eng",
      "type": "messaging",
      "nodes": [
        {
          "uuid": "22222222-2222-4222-8222-222222222222",
          "actions": [
            {
              "uuid": "33333333-3333-4333-8333-333333333333",
              "type": "send_msg",
              "text": "See you at @(parse_time(input.text, \"tt:mm\"))"
            }
          ],
          "exits": [{"uuid": "44444444-4444-4444-8444-444444444444"}]
        }
      ]
    }
  ]
}`

const hunt3Contact = `{
  "uuid": "55555555-5555-4555-8555-555555555555",
  "name": "Ann",
  "status": "active",
  "created_on": "2020-01-01T00:00:00Z"
}`

// runs the flow once for a message which isn't a time, with fixed clock, UUID source and random source,
// and returns the events of the sprint and the session as JSON
func hunt3RunOnce(t *testing.T) string {
	uuids.SetGenerator(uuids.NewSeededGenerator(1234, time.Now))
	dates.SetNowFunc(dates.NewFixedNow(time.Date(2024, 1, 2, 3, 4, 5, 0, time.UTC)))
	random.SetGenerator(random.NewSeededGenerator(1234))
	defer uuids.SetGenerator(uuids.DefaultGenerator)
	defer dates.SetNowFunc(time.Now)
	defer random.SetGenerator(random.DefaultGenerator)

	env := envs.NewBuilder().Build()
	src, err := static.NewSource([]byte(hunt3Assets))
	if err != nil {
		t.Fatal(err)
	}
	sa, err := engine.NewSessionAssets(env, src, nil)
	if err != nil {
		t.Fatal(err)
	}
	contact, err := flows.ReadContact(sa, []byte(hunt3Contact), assets.PanicOnMissing)
	if err != nil {
		t.Fatal(err)
	}
	flow := assets.NewFlowReference("11111111-1111-4111-8111-111111111111", "Parse Time")
	msg := flows.NewMsgIn("66666666-6666-4666-8666-666666666666", urns.NilURN, nil, "half past nine", nil)
	trigger := triggers.NewBuilder(env, flow, contact).Msg(msg).Build()

	session, sprint, err := engine.NewBuilder().Build().NewSession(sa, trigger)
	if err != nil {
		t.Fatal(err)
	}
	return string(jsonx.MustMarshal(sprint.Events())) + "\n" + string(jsonx.MustMarshal(session))
}

func TestHuntTimeParseErrorIsDeterministic(t *testing.T) {
	first := hunt3RunOnce(t)
	for i := 0; i < 200; i++ {
		again := hunt3RunOnce(t)
		if again != first {
			t.Fatalf("same assets, contact, trigger, clock, UUID source and random source gave different output on execution %d:\n--- first\n%s\n--- now\n%s", i+2, first, again)
		}
	}
}
