package engine_test

import (
	"fmt"
	"os"
	"os/exec"
	"strings"
	"testing"
	"time"

	"github.com/nyaruka/gocommon/dates"
	"github.com/nyaruka/gocommon/jsonx"
	"github.com/nyaruka/gocommon/random"
	"github.com/nyaruka/gocommon/uuids"
	"github.com/nyaruka/goflow/assets"
	"github.com/nyaruka/goflow/assets/static"
	"github.com/nyaruka/goflow/envs"
	"github.com/nyaruka/goflow/flows"
	"github.com/nyaruka/goflow/flows/engine"
	"github.com/nyaruka/goflow/flows/triggers"
)

const hunt2Assets = `{
  "flows": [
    {
      "uuid": "11111111-1111-4111-8111-111111111111",
      "name": "Appointment",
      "spec_version": "13.1.0",
      "language": "fra",
      "type": "messaging",
      "nodes": [
        {
          "uuid": "22222222-2222-4222-8222-222222222222",
          "actions": [
            {
              "uuid": "33333333-3333-4333-8333-333333333333",
              "type": "send_msg",
              "text": "RDV: @(format_date(\"2024-03-06\", \"EEE D MMM YYYY\")) @(format_time(\"15:30\", \"h:mm aa\"))"
            }
          ],
          "exits": [{"uuid": "44444444-4444-4444-8444-444444444444"}]
        }
      ]
    }
  ]
}`

const hunt2Contact = `{
  "uuid": "55555555-5555-4555-8555-555555555555",
  "name": "Ann",
  "status": "active",
  "created_on": "2020-01-01T00:00:00Z"
}`

// environments as a host reads them with envs.ReadEnvironment: French in Senegal, Arabic in Palestine
var hunt2Envs = []string{
	`{"date_format": "DD-MM-YYYY", "time_format": "tt:mm", "timezone": "Africa/Dakar", "allowed_languages": ["fra"], "default_country": "SN"}`,
	`{"date_format": "DD-MM-YYYY", "time_format": "tt:mm", "timezone": "Asia/Hebron", "allowed_languages": ["ara"], "default_country": "PS"}`,
}

// runs the flow once in each environment with fixed clock, UUID source and random source and returns the events
func hunt2RunOnce() string {
	uuids.SetGenerator(uuids.NewSeededGenerator(1234, time.Now))
	dates.SetNowFunc(dates.NewFixedNow(time.Date(2024, 1, 2, 3, 4, 5, 0, time.UTC)))
	random.SetGenerator(random.NewSeededGenerator(1234))

	out := &strings.Builder{}
	for _, envJSON := range hunt2Envs {
		env, err := envs.ReadEnvironment([]byte(envJSON))
		if err != nil {
			panic(err)
		}
		src, err := static.NewSource([]byte(hunt2Assets))
		if err != nil {
			panic(err)
		}
		sa, err := engine.NewSessionAssets(env, src, nil)
		if err != nil {
			panic(err)
		}
		contact, err := flows.ReadContact(sa, []byte(hunt2Contact), assets.PanicOnMissing)
		if err != nil {
			panic(err)
		}
		flow := assets.NewFlowReference("11111111-1111-4111-8111-111111111111", "Appointment")
		trigger := triggers.NewBuilder(env, flow, contact).Manual().Build()

		_, sprint, err := engine.NewBuilder().Build().NewSession(sa, trigger)
		if err != nil {
			panic(err)
		}
		out.WriteString(string(jsonx.MustMarshal(sprint.Events())) + "\n")
	}
	return out.String()
}

// not a test in itself: the body of the fresh processes started by the test below
func TestHuntLocaleChild(t *testing.T) {
	if os.Getenv("HUNT_CHILD") == "" {
		t.Skip("only runs as child process of TestHuntDateNamesAreSameInEveryProcess")
	}
	fmt.Printf("HUNT-OUTPUT-BEGIN\n%sHUNT-OUTPUT-END\n", hunt2RunOnce())
}

// The same scenario is executed in a number of fresh processes (this test binary re-executed), which
// differ only by their map hash seed. All must produce the same events.
func TestHuntDateNamesAreSameInEveryProcess(t *testing.T) {
	first := ""
	for i := 0; i < 30; i++ {
		cmd := exec.Command(os.Args[0], "-test.run", "^TestHuntLocaleChild$")
		cmd.Env = append(os.Environ(), "HUNT_CHILD=1")
		raw, err := cmd.CombinedOutput()
		if err != nil {
			t.Fatalf("child process failed: %s\n%s", err, raw)
		}
		out := string(raw)
		b, e := strings.Index(out, "HUNT-OUTPUT-BEGIN\n"), strings.Index(out, "HUNT-OUTPUT-END\n")
		if b < 0 || e < 0 {
			t.Fatalf("unexpected child output: %s", out)
		}
		out = out[b+len("HUNT-OUTPUT-BEGIN\n") : e]

		if i == 0 {
			first = out
		} else if out != first {
			t.Fatalf("same assets, contact, trigger, clock, UUID source and random source gave different events in fresh process %d:\n--- first process\n%s--- this process\n%s", i+1, first, out)
		}
	}
}
