package engine_test

import (
	"testing"
	"time"

	"github.com/nyaruka/gocommon/dates"
	"github.com/nyaruka/gocommon/jsonx"
	"github.com/nyaruka/gocommon/random"
	"github.com/nyaruka/gocommon/uuids"
	"github.com/nyaruka/goflow/assets"
	"github.com/nyaruka/goflow/assets/static"
	"github.com/nyaruka/goflow/envs"
	"github.com/nyaruka/goflow/flows"
	"github.com/nyaruka/goflow/flows/engine"
	"github.com/nyaruka/goflow/flows/triggers"
)

const hunt1Assets = `{
  "flows": [
    {
      "uuid": "11111111-1111-4111-8111-111111111111",
      "name": "Echo URN",
      "spec_version": "13.1.0",
      "language": "eng",
      "type": "messaging",
      "nodes": [
        {
          "uuid": "22222222-2222-4222-8222-222222222222",
          "actions": [
            {
              "uuid": "33333333-3333-4333-8333-333333333333",
              "type": "send_msg",
              "text": "Your ID is @(urn_parts(urns.ext).path) (@urns.ext)"
            }
          ],
          "exits": [{"uuid": "44444444-4444-4444-8444-444444444444"}]
        }
      ]
    }
  ]
}`

// a contact whose external ID is the text abc%3Fdef - the URN encoding of % is %25, so this is how
// urns.NewFromParts("ext", "abc%3Fdef", nil, "") writes it
const hunt1Contact = `{
  "uuid": "55555555-5555-4555-8555-555555555555",
  "name": "Ann",
  "status": "active",
  "created_on": "2020-01-01T00:00:00Z",
  "urns": ["ext:abc%253Fdef"]
}`

// runs the flow once for the contact with fixed clock, UUID source and random source and returns
// the events of the sprint and the session as JSON
func hunt1RunOnce(t *testing.T) string {
	uuids.SetGenerator(uuids.NewSeededGenerator(1234, time.Now))
	dates.SetNowFunc(dates.NewFixedNow(time.Date(2024, 1, 2, 3, 4, 5, 0, time.UTC)))
	random.SetGenerator(random.NewSeededGenerator(1234))
	defer uuids.SetGenerator(uuids.DefaultGenerator)
	defer dates.SetNowFunc(time.Now)
	defer random.SetGenerator(random.DefaultGenerator)

	env := envs.NewBuilder().Build()
	src, err := static.NewSource([]byte(hunt1Assets))
	if err != nil {
		t.Fatal(err)
	}
	sa, err := engine.NewSessionAssets(env, src, nil)
	if err != nil {
		t.Fatal(err)
	}
	contact, err := flows.ReadContact(sa, []byte(hunt1Contact), assets.PanicOnMissing)
	if err != nil {
		t.Fatal(err)
	}
	flow := assets.NewFlowReference("11111111-1111-4111-8111-111111111111", "Echo URN")
	trigger := triggers.NewBuilder(env, flow, contact).Manual().Build()

	session, sprint, err := engine.NewBuilder().Build().NewSession(sa, trigger)
	if err != nil {
		t.Fatal(err)
	}
	return string(jsonx.MustMarshal(sprint.Events())) + "\n" + string(jsonx.MustMarshal(session))
}

func TestHuntEscapedPercentInURNIsDeterministic(t *testing.T) {
	first := hunt1RunOnce(t)
	for i := 0; i < 200; i++ {
		again := hunt1RunOnce(t)
		if again != first {
			t.Fatalf("same assets, contact, trigger, clock, UUID source and random source gave different output on execution %d:\n--- first\n%s\n--- now\n%s", i+2, first, again)
		}
	}
}
