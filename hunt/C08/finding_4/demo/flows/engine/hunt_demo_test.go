package engine_test

import (
	"testing"

	"github.com/nyaruka/gocommon/jsonx"
	"github.com/nyaruka/goflow/assets"
	"github.com/nyaruka/goflow/assets/static"
	"github.com/nyaruka/goflow/contactql"
	"github.com/nyaruka/goflow/contactql/es"
	"github.com/nyaruka/goflow/envs"
	"github.com/nyaruka/goflow/flows/engine"
)

// two flows whose names differ only by case - a name lookup is case-insensitive so both match "registration"
const huntDupNameAssets = `{
  "flows": [
    {"uuid": "11111111-1111-4111-8111-111111111111", "name": "Registration", "spec_version": "13.1.0", "language": "eng", "type": "messaging", "nodes": []},
    {"uuid": "22222222-2222-4222-8222-222222222222", "name": "registration", "spec_version": "13.1.0", "language": "eng", "type": "messaging", "nodes": []}
  ]
}`

type huntMapper struct{}

func (huntMapper) Flow(f assets.Flow) int64 {
	if f.UUID() == "11111111-1111-4111-8111-111111111111" {
		return 1
	}
	return 2
}
func (huntMapper) Group(assets.Group) int64 { return 0 }

// The session assets are the contactql.Resolver which the engine gives to hosts. Once both flows have been
// loaded (e.g. because a session entered each of them), resolving a flow by name walks the flow cache, which is a
// Go map, and returns whichever match the map yields first. The same query on the same assets is then
// converted to a different Elastic query from one call to the next.
func TestHuntResolveFlowByNameIsDeterministic(t *testing.T) {
	env := envs.NewBuilder().Build()
	src, err := static.NewSource([]byte(huntDupNameAssets))
	if err != nil {
		t.Fatal(err)
	}
	sa, err := engine.NewSessionAssets(env, src, nil)
	if err != nil {
		t.Fatal(err)
	}

	// load both flows the way the engine does when a session enters them
	for _, u := range []assets.FlowUUID{"11111111-1111-4111-8111-111111111111", "22222222-2222-4222-8222-222222222222"} {
		if _, err := sa.Flows().Get(u); err != nil {
			t.Fatal(err)
		}
	}

	convert := func() (string, assets.FlowUUID) {
		query, err := contactql.ParseQuery(env, `flow = "registration"`, sa)
		if err != nil {
			t.Fatal(err)
		}
		return string(jsonx.MustMarshal(es.ToElasticQuery(env, huntMapper{}, query))), sa.ResolveFlow("registration").UUID()
	}

	firstQuery, firstUUID := convert()
	for i := 0; i < 200; i++ {
		q, u := convert()
		if q != firstQuery || u != firstUUID {
			t.Fatalf("call %d on the same assets gave a different result:\nfirst: flow %s, query %s\nnow:   flow %s, query %s", i+2, firstUUID, firstQuery, u, q)
		}
	}
}
