package engine_test

import (
	"fmt"
	"testing"
	"time"

	"github.com/nyaruka/gocommon/jsonx"
	"github.com/nyaruka/gocommon/urns"
	"github.com/nyaruka/goflow/assets"
	"github.com/nyaruka/goflow/envs"
	"github.com/nyaruka/goflow/flows"
	"github.com/nyaruka/goflow/flows/engine"
	"github.com/nyaruka/goflow/flows/events"
	"github.com/nyaruka/goflow/flows/resumes"
	"github.com/nyaruka/goflow/flows/triggers"
	"github.com/nyaruka/goflow/test"
)

// assets with one flow (a msg wait, then nothing) and two query based groups whose queries are parameters
func huntAssets(flowNodes, queryBobs, queryNamed string) []byte {
	return []byte(fmt.Sprintf(`{
	"flows": [{"uuid": "1b462ce8-983a-4393-b133-e15a0efdb70c", "name": "Wait", "spec_version": "13.0", "language": "eng", "type": "messaging", "nodes": %s}],
	"groups": [
		{"uuid": "d7ff4872-9238-452f-9d38-2f558fea89e0", "name": "Bobs", "query": %q},
		{"uuid": "047de1c9-9189-4f4c-aa04-bff0a4c2efb6", "name": "Named", "query": %q}
	]
}`, flowNodes, queryBobs, queryNamed))
}

const huntWaitNode = `{
	"uuid": "a0000000-0000-4000-8000-000000000001",
	"router": {
		"type": "switch", "wait": {"type": "msg"}, "operand": "@input.text", "cases": [],
		"categories": [{"uuid": "a0000000-0000-4000-8000-0000000000c1", "name": "All", "exit_uuid": "a0000000-0000-4000-8000-0000000000e1"}],
		"default_category_uuid": "a0000000-0000-4000-8000-0000000000c1"
	},
	"exits": [{"uuid": "a0000000-0000-4000-8000-0000000000e1"}]
}`

// returns the names of the query based groups whose stored membership differs from what their query says
func huntWrongGroups(sa flows.SessionAssets, s flows.Session) []string {
	wrong := []string{}
	for _, g := range sa.Groups().All() {
		if g.UsesQuery() {
			member := s.Contact().Groups().FindByUUID(g.UUID()) != nil
			qualifies := g.CheckQueryBasedMembership(s.Environment(), s.Contact())
			if member != qualifies {
				wrong = append(wrong, fmt.Sprintf("%s (%s): member=%v qualifies=%v", g.Name(), g.Query(), member, qualifies))
			}
		}
	}
	return wrong
}

func huntGroupEvents(sp flows.Sprint) int {
	n := 0
	for _, e := range sp.Events() {
		if e.Type() == events.TypeContactGroupsChanged {
			n++
		}
	}
	return n
}

// Starts a session for Bob which waits for a message, then - as a host does between sprints - reloads the session with
// refreshed assets in which the groups' queries have been edited, and resumes it. The resume is one the engine refuses
// by failing the session (err == nil, session handed back as failed).
func huntRun(t *testing.T, eng flows.Engine, nodesAtResume string) {
	sa1, err := test.CreateSessionAssets(huntAssets("["+huntWaitNode+"]", `name = "Bob"`, `name != ""`), "")
	if err != nil {
		t.Fatal(err)
	}

	env := envs.NewBuilder().Build()
	contact, err := flows.NewContact(sa1, "5d76d86b-3bb9-4d5a-b822-c9d86f5d8e4f", 1234, "Bob", "eng", flows.ContactStatusActive, nil,
		time.Date(2020, 1, 1, 12, 0, 0, 0, time.UTC), nil, []urns.URN{"tel:+12065551212"}, nil, nil, nil, assets.PanicOnMissing)
	if err != nil {
		t.Fatal(err)
	}
	flow, _ := sa1.Flows().Get("1b462ce8-983a-4393-b133-e15a0efdb70c")

	s, sp, err := eng.NewSession(sa1, triggers.NewBuilder(env, flow.Reference(false), contact).Manual().Build())
	if err != nil {
		t.Fatal(err)
	}
	if s.Status() != flows.SessionStatusWaiting || len(huntWrongGroups(sa1, s)) != 0 || huntGroupEvents(sp) != 1 {
		t.Fatalf("unexpected state after first sprint: %s %v", s.Status(), huntWrongGroups(sa1, s))
	}

	// the host persists the session ...
	sessionJSON, err := jsonx.Marshal(s)
	if err != nil {
		t.Fatal(err)
	}

	// ... the groups are edited: Bob no longer belongs in "Bobs" ...
	sa2, err := test.CreateSessionAssets(huntAssets(nodesAtResume, `name = "Jim"`, `name != ""`), "")
	if err != nil {
		t.Fatal(err)
	}

	// ... and the session is read with the refreshed assets and resumed with a message
	s, err = eng.ReadSession(sa2, sessionJSON, assets.IgnoreMissing)
	if err != nil {
		t.Fatal(err)
	}
	msg := flows.NewMsgIn("c34b6c7d-fa06-4563-92a3-d648ab64bccb", "tel:+12065551212", nil, "hi", nil)
	sp, err = s.Resume(resumes.NewMsg(nil, nil, msg))
	if err != nil {
		t.Fatalf("resume returned an error, no session handed back: %s", err)
	}

	t.Logf("session status after resume: %s, events: %d", s.Status(), len(sp.Events()))

	// the engine has handed back a session: its contact must be in exactly the query groups whose query matches
	if wrong := huntWrongGroups(sa2, s); len(wrong) > 0 {
		t.Errorf("session handed back (status=%s) with query group membership that does not match the contact: %v (contact_groups_changed events in sprint: %d)", s.Status(), wrong, huntGroupEvents(sp))
	}
}

func TestHuntDemoFailedResumeKeepsStaleQueryGroups(t *testing.T) {
	// control: same history but the resume succeeds => the engine corrects membership and reports it
	t.Run("control_resume_succeeds", func(t *testing.T) {
		huntRun(t, engine.NewBuilder().Build(), "["+huntWaitNode+"]")
	})

	// the flow was edited while the contact was waiting, the node it waits on no longer exists
	t.Run("wait_node_removed_from_flow", func(t *testing.T) {
		huntRun(t, engine.NewBuilder().Build(), `[]`)
	})

	// the session is at its resume limit (an engine option a host can set)
	t.Run("max_resumes_reached", func(t *testing.T) {
		huntRun(t, engine.NewBuilder().WithMaxResumesPerSession(1).Build(), "["+huntWaitNode+"]")
	})
}
