package engine_test

import (
	"fmt"
	"testing"
	"time"

	"github.com/nyaruka/gocommon/urns"
	"github.com/nyaruka/goflow/assets"
	"github.com/nyaruka/goflow/envs"
	"github.com/nyaruka/goflow/flows"
	"github.com/nyaruka/goflow/flows/engine"
	"github.com/nyaruka/goflow/flows/events"
	"github.com/nyaruka/goflow/flows/resumes"
	"github.com/nyaruka/goflow/flows/triggers"
	"github.com/nyaruka/goflow/test"
)

// a flow which waits for a message and then runs the given actions, one static group and one query based group
func hunt2Assets(actionsAfterWait string) []byte {
	return []byte(fmt.Sprintf(`{
	"flows": [{"uuid": "1b462ce8-983a-4393-b133-e15a0efdb70c", "name": "Wait", "spec_version": "13.0", "language": "eng", "type": "messaging", "nodes": [
		{
			"uuid": "a0000000-0000-4000-8000-000000000001",
			"router": {
				"type": "switch", "wait": {"type": "msg"}, "operand": "@input.text", "cases": [],
				"categories": [{"uuid": "a0000000-0000-4000-8000-0000000000c1", "name": "All", "exit_uuid": "a0000000-0000-4000-8000-0000000000e1"}],
				"default_category_uuid": "a0000000-0000-4000-8000-0000000000c1"
			},
			"exits": [{"uuid": "a0000000-0000-4000-8000-0000000000e1", "destination_uuid": "a0000000-0000-4000-8000-000000000002"}]
		},
		{
			"uuid": "a0000000-0000-4000-8000-000000000002",
			"actions": [%s],
			"exits": [{"uuid": "a0000000-0000-4000-8000-0000000000e2"}]
		}
	]}],
	"groups": [
		{"uuid": "b7cf0d83-f1c9-411c-96fd-c511a4cfa86d", "name": "Testers"},
		{"uuid": "d7ff4872-9238-452f-9d38-2f558fea89e0", "name": "Named", "query": "name != \"\""}
	]
}`, actionsAfterWait))
}

const hunt2Rename = `{"uuid": "ad154980-7bf7-4ab8-8728-545fd6378912", "type": "set_contact_name", "name": "Robert"}`

type hunt2Result struct {
	status      flows.ContactStatus
	inStatic    bool
	inQuery     bool
	groupEvents int
}

// Bob is active and in the static group Testers. He starts the flow and waits. While he waits he is blocked, and the
// host resumes the session with the refreshed contact: status blocked, still listing his groups.
func hunt2Run(t *testing.T, actionsAfterWait string) hunt2Result {
	sa, err := test.CreateSessionAssets(hunt2Assets(actionsAfterWait), "")
	if err != nil {
		t.Fatal(err)
	}
	testers := sa.Groups().Get("b7cf0d83-f1c9-411c-96fd-c511a4cfa86d")
	named := sa.Groups().Get("d7ff4872-9238-452f-9d38-2f558fea89e0")

	newBob := func(status flows.ContactStatus) *flows.Contact {
		c, err := flows.NewContact(sa, "5d76d86b-3bb9-4d5a-b822-c9d86f5d8e4f", 1234, "Bob", "eng", status, nil,
			time.Date(2020, 1, 1, 12, 0, 0, 0, time.UTC), nil, []urns.URN{"tel:+12065551212"},
			[]*assets.GroupReference{testers.Reference(), named.Reference()}, nil, nil, assets.PanicOnMissing)
		if err != nil {
			t.Fatal(err)
		}
		return c
	}

	env := envs.NewBuilder().Build()
	flow, _ := sa.Flows().Get("1b462ce8-983a-4393-b133-e15a0efdb70c")
	eng := engine.NewBuilder().Build()

	s, _, err := eng.NewSession(sa, triggers.NewBuilder(env, flow.Reference(false), newBob(flows.ContactStatusActive)).Manual().Build())
	if err != nil {
		t.Fatal(err)
	}
	if s.Status() != flows.SessionStatusWaiting || s.Contact().Status() != flows.ContactStatusActive || s.Contact().Groups().Count() != 2 {
		t.Fatalf("unexpected state after first sprint")
	}

	msg := flows.NewMsgIn("c34b6c7d-fa06-4563-92a3-d648ab64bccb", "tel:+12065551212", nil, "hi", nil)
	sp, err := s.Resume(resumes.NewMsg(nil, newBob(flows.ContactStatusBlocked), msg))
	if err != nil {
		t.Fatal(err)
	}

	r := hunt2Result{
		status:   s.Contact().Status(),
		inStatic: s.Contact().Groups().FindByUUID(testers.UUID()) != nil,
		inQuery:  s.Contact().Groups().FindByUUID(named.UUID()) != nil,
	}
	for _, e := range sp.Events() {
		if e.Type() == events.TypeContactGroupsChanged {
			r.groupEvents++
		}
	}
	t.Logf("after resume: status=%s in static group=%v in query group=%v contact_groups_changed events=%d", r.status, r.inStatic, r.inQuery, r.groupEvents)
	return r
}

func TestHuntDemoSessionContactBecomesNonActiveKeepsStaticGroups(t *testing.T) {
	// the engine's re-evaluation at resume takes the now blocked contact out of the query based group ...
	plain := hunt2Run(t, ``)
	if plain.status != flows.ContactStatusBlocked || plain.inQuery {
		t.Fatalf("unexpected: %+v", plain)
	}

	// ... but the session's contact, which was active when the engine last handed the session back and is blocked now,
	// is handed back still a member of its static group
	if plain.inStatic {
		t.Errorf("session handed back with a blocked contact that is still in static group Testers")
	}

	// and whether it is depends on whether some action happened to change the contact in any way
	renamed := hunt2Run(t, hunt2Rename)
	if renamed.inStatic != plain.inStatic {
		t.Errorf("blocked contact in static group after sprint: %v without actions, %v when the flow also sets the contact's name", plain.inStatic, renamed.inStatic)
	}
}
