package excellent_test

import (
	"testing"

	"github.com/nyaruka/goflow/envs"
	"github.com/nyaruka/goflow/excellent"
	"github.com/nyaruka/goflow/excellent/types"
	"github.com/stretchr/testify/assert"
)

// C12: "Template text outside expressions passes through unchanged: '@@' yields '@'".
// An "@(" that never becomes an expression (unbalanced parenthesis or unterminated quote) is body text
// (the scanner itself returns it as BODY), yet every "@@" after it is left doubled.
func TestHuntC12EscapedAtAfterUnterminatedExpression(t *testing.T) {
	env := envs.NewBuilder().Build()
	ctx := types.NewXObject(map[string]types.XValue{"contact": types.NewXText("Bob")})
	ev := excellent.NewEvaluator()

	// control: without the stray "@(" the escape works
	out, _, err := ev.Template(env, ctx, `Sad :( write to help@@example.com`, nil)
	assert.NoError(t, err)
	assert.Equal(t, `Sad :( write to help@example.com`, out)

	tcs := []struct{ template, expected string }{
		{`Sad :@( write to help@@example.com`, `Sad :@( write to help@example.com`}, // unbalanced paren
		{`@(`, `@(`},
		{`@( @@`, `@( @`},
		{`@("abc) follow @@nyaruka`, `@("abc) follow @nyaruka`}, // unterminated text literal
	}
	for _, tc := range tcs {
		out, _, err := ev.Template(env, ctx, tc.template, nil)
		assert.NoError(t, err)
		assert.Equal(t, tc.expected, out, "template %q", tc.template)
	}
}
