package excellent_test

import (
	"strings"
	"testing"

	"github.com/nyaruka/goflow/envs"
	"github.com/nyaruka/goflow/excellent"
	"github.com/nyaruka/goflow/excellent/types"
	"github.com/stretchr/testify/assert"
)

// C12: "the template scanner and the expression parser agree on where each expression ends".
// After a dot the scanner accepts any run of name characters as part of the identifier (scanner.go isNameChar),
// the grammar accepts only NAME (must not start with a digit) or INTEGER there, and reads digits '.' digits as
// one DECIMAL. So for these templates the scanner delimits an expression that the parser stops in the middle of.
func TestHuntC12IdentifierSegmentsScannerVsParser(t *testing.T) {
	env := envs.NewBuilder().Build()
	ctx := types.NewXObject(map[string]types.XValue{
		"results": types.NewXObject(map[string]types.XValue{
			"2factor": types.NewXText("123456"), // key of a result named "2Factor", as in flows/engine/testdata/templates.json
		}),
		"webhook": types.NewXObject(map[string]types.XValue{
			"rows": types.NewXArray(types.NewXArray(types.NewXText("r0c0"), types.NewXText("r0c1"))),
		}),
	})
	ev := excellent.NewEvaluator()

	tcs := []struct{ template, equivalent string }{
		{`@results.2factor`, `@(results["2factor"])`}, // segment starting with a digit
		{`@webhook.rows.0.1`, `@(webhook.rows[0][1])`}, // two numeric segments are lexed as DECIMAL 0.1
	}
	for _, tc := range tcs {
		// 1. whatever the scanner hands over as an identifier has to be one whole expression for the parser
		scanner := excellent.NewXScanner(strings.NewReader(tc.template), ctx.Properties())
		tokenType, token := scanner.Scan()
		assert.Equal(t, excellent.IDENTIFIER, tokenType)
		_, err := excellent.Parse(token, nil)
		assert.NoError(t, err, "scanner says %q is an expression, parser disagrees", token)

		// 2. end to end
		expected, _, err := ev.Template(env, ctx, tc.equivalent, nil)
		assert.NoError(t, err)
		actual, _, err := ev.Template(env, ctx, tc.template, nil)
		assert.NoError(t, err, "template %q", tc.template)
		assert.Equal(t, expected, actual, "template %q", tc.template)
	}
}
