package excellent_test

import (
	"strings"
	"testing"

	"github.com/nyaruka/goflow/envs"
	"github.com/nyaruka/goflow/excellent"
	"github.com/nyaruka/goflow/excellent/types"
	"github.com/stretchr/testify/assert"
)

// C12: "the template scanner and the expression parser agree on where each expression ends".
// The scanner's idea of a name character is Go's unicode.IsLetter || unicode.IsNumber (scanner.go:29), the lexer's
// is the fixed BMP-only UnicodeLetter/UnicodeDigit tables of antlr/LexUnicode.g4. For 88,504 code points (all
// letters outside the BMP such as CJK extension B-H, Cherokee small letters, super/subscript and circled digits, ...)
// the scanner extends the identifier over a character at which the lexer has already ended the name.
func TestHuntC12IdentifierCharsScannerVsLexer(t *testing.T) {
	env := envs.NewBuilder().Build()
	ctx := types.NewXObject(map[string]types.XValue{
		"contact": types.NewXObject(map[string]types.XValue{
			"name": types.NewXText("Bob"),
			"名":    types.NewXText("bmp"),
			"𠮷":    types.NewXText("non-bmp"),
		}),
	})
	ev := excellent.NewEvaluator()

	// control: a BMP letter is a name character for both sides
	out, _, err := ev.Template(env, ctx, "@contact.名", nil)
	assert.NoError(t, err)
	assert.Equal(t, "bmp", out)

	for _, template := range []string{
		"@contact.𠮷",     // U+20BB7, CJK extension B (in use in Japanese names)
		"@contact.name𠮷", // literal text following an identifier
		"@contact.name₂",  // U+2082 SUBSCRIPT TWO (unicode.IsNumber, not UnicodeDigit)
		"@contact.name①",  // U+2460 CIRCLED DIGIT ONE
		"@contact.nameꭰ",  // U+AB70 CHEROKEE SMALL LETTER A (letter since Unicode 8)
	} {
		scanner := excellent.NewXScanner(strings.NewReader(template), ctx.Properties())
		tokenType, token := scanner.Scan()
		assert.Equal(t, excellent.IDENTIFIER, tokenType)

		// either both sides take the character as part of the name (then this parses, like the control), or both
		// end the expression before it (then the scanner wouldn't have included it in the token)
		_, err := excellent.Parse(token, nil)
		assert.NoError(t, err, "scanner says %q is an expression, parser disagrees", token)

		_, _, err = ev.Template(env, ctx, template, nil)
		if err != nil {
			assert.NotContains(t, err.Error(), "syntax error", "template %q", template)
		}
	}
}
