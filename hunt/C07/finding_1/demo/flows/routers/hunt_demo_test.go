package routers_test

import (
	"encoding/json"
	"fmt"
	"testing"

	"github.com/nyaruka/gocommon/urns"
	"github.com/nyaruka/goflow/assets"
	"github.com/nyaruka/goflow/envs"
	"github.com/nyaruka/goflow/flows"
	"github.com/nyaruka/goflow/flows/triggers"
	"github.com/nyaruka/goflow/test"
	"github.com/stretchr/testify/assert"
	"github.com/stretchr/testify/require"
)

const huntAssets = `{
  "flows": [{
    "uuid": "16f6eee7-9843-4333-bad2-1d7fd636452c", "name": "Hunt", "spec_version": "13.0", "language": "eng", "type": "messaging",
    "nodes": [{
      "uuid": "64373978-e8f6-4973-b6ff-a2993f3376fc",
      "actions": [],
      "router": {
        "type": "switch",
        "wait": {"type": "msg"},
        "operand": "@input.text",
        "result_name": "Answer",
        "cases": [
          {"uuid": "98503572-25bf-40ce-ad72-8836b6549a38", "type": "%s", "arguments": [%s], "category_uuid": "598ae7a5-2f81-48f1-afac-595262514aa1"}
        ],
        "categories": [
          {"uuid": "598ae7a5-2f81-48f1-afac-595262514aa1", "name": "Matched", "exit_uuid": "49a47f31-ec90-42b5-a0d8-6efb5b1fa57b"},
          {"uuid": "78ae8f05-f92e-43b2-a886-406eaea1b8e0", "name": "Other", "exit_uuid": "5bd6a427-2b9a-4a4d-ad3f-eb39eaaa7e5a"}
        ],
        "default_category_uuid": "78ae8f05-f92e-43b2-a886-406eaea1b8e0"
      },
      "exits": [{"uuid": "49a47f31-ec90-42b5-a0d8-6efb5b1fa57b"}, {"uuid": "5bd6a427-2b9a-4a4d-ad3f-eb39eaaa7e5a"}]
    }]
  }]
}`

const huntContact = `{"uuid": "5d76d86b-3bb9-4d5a-b822-c9d86f5d8e4f", "name": "Ann", "urns": ["tel:+12065551212"], "created_on": "2018-06-20T11:40:30.123456789-00:00"}`

// runs a flow whose only node is a switch router (operand @input.text, one case -> "Matched", default "Other") with the
// given incoming message as trigger, returns the category the result was saved with
func huntRoute(t *testing.T, env envs.Environment, testType string, argsJSON string, msgText string) (category string, err error) {
	sa, err := test.CreateSessionAssets(json.RawMessage(fmt.Sprintf(huntAssets, testType, argsJSON)), "")
	require.NoError(t, err)
	flow, err := sa.Flows().Get("16f6eee7-9843-4333-bad2-1d7fd636452c")
	require.NoError(t, err)
	contact, err := flows.ReadContact(sa, json.RawMessage(huntContact), assets.PanicOnMissing)
	require.NoError(t, err)

	msg := flows.NewMsgIn(flows.MsgUUID("2d611e17-fb22-457f-b802-b8f7ec5cda5b"), urns.URN("tel:+12065551212"), nil, msgText, nil)
	trigger := triggers.NewBuilder(env, flow.Reference(false), contact).Msg(msg).Build()

	defer func() {
		if r := recover(); r != nil {
			err = fmt.Errorf("engine panicked: %v", r)
		}
	}()

	session, _, err := test.NewEngine().NewSession(sa, trigger)
	if err != nil {
		return "", err
	}
	run := session.Runs()[0]
	if run.Status() != flows.RunStatusCompleted {
		return "", fmt.Errorf("run status is %s", run.Status())
	}
	return run.Results().Get("answer").Category, nil
}

func TestHuntDemo(t *testing.T) {
	// the documented values work
	for _, col := range []string{"default", "confusables", "arabic_variants"} {
		env, err := envs.ReadEnvironment([]byte(fmt.Sprintf(`{"input_collation": %q}`, col)))
		require.NoError(t, err)
		cat, err := huntRoute(t, env, "has_any_word", `"yes"`, "Yes please")
		assert.NoError(t, err)
		assert.Equal(t, "Matched", cat)
	}

	// other values are accepted too (a reader which rejected them would also be fine)...
	for _, col := range []string{"", "unicode"} {
		envsToTry := []envs.Environment{envs.NewBuilder().WithInputCollation(envs.Collation(col)).Build()}

		if env, err := envs.ReadEnvironment([]byte(fmt.Sprintf(`{"input_collation": %q}`, col))); err == nil {
			envsToTry = append(envsToTry, env)
		}

		for _, env := range envsToTry {
			// ... so the router has to route (or fail the run), not crash the host
			cat, err := huntRoute(t, env, "has_any_word", `"yes"`, "Yes please")
			assert.NoError(t, err, "input_collation=%q", col)
			assert.Equal(t, "Matched", cat, "input_collation=%q", col)
		}
	}
}
