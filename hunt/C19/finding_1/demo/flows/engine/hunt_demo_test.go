package engine_test

import (
	"testing"
	"time"

	"github.com/nyaruka/gocommon/urns"
	"github.com/nyaruka/goflow/assets"
	"github.com/nyaruka/goflow/assets/static"
	"github.com/nyaruka/goflow/envs"
	"github.com/nyaruka/goflow/flows"
	"github.com/nyaruka/goflow/flows/engine"
	"github.com/nyaruka/goflow/flows/triggers"
	"github.com/nyaruka/goflow/test"
	"github.com/stretchr/testify/assert"
	"github.com/stretchr/testify/require"
)

// one tel channel, one flow: the flow adds the URN tel:+12065551212 to the contact and then waits
const huntC19Assets = `{
	"channels": [
		{"uuid": "57f1078f-88aa-46f4-a59a-948a5739c03d", "name": "Line", "address": "+12065550000", "schemes": ["tel"], "roles": ["send", "receive"], "country": "US"}
	],
	"flows": [
		{
			"uuid": "50c3706e-fedb-42c0-8eab-dda3335714b7",
			"name": "Probe",
			"spec_version": "13.1.0",
			"language": "eng",
			"type": "messaging",
			"nodes": [
				{
					"uuid": "72a1f5df-49f9-45df-94c9-d86f7ea064e5",
					"actions": [
						{"uuid": "ad154980-7bf7-4ab8-8728-545fd6378912", "type": "add_contact_urn", "scheme": "tel", "path": "+12065551212"},
						{"uuid": "8eebd020-1af5-431c-b943-aa670fc74da9", "type": "set_run_result", "name": "Probe", "value": "@(count(contact.urns))", "category": ""}
					],
					"exits": [{"uuid": "d7a36118-0a38-4b35-a7e4-ae89042f0d3c"}]
				}
			]
		}
	]
}`

func huntC19Run(t *testing.T, policy envs.RedactionPolicy, urn urns.URN) (flows.Session, flows.Sprint) {
	env := envs.NewBuilder().WithDefaultCountry("US").WithAllowedLanguages("eng").WithRedactionPolicy(policy).Build()

	source, err := static.NewSource([]byte(huntC19Assets))
	require.NoError(t, err)
	sa, err := engine.NewSessionAssets(env, source, nil)
	require.NoError(t, err)

	contact, err := flows.NewContact(sa, "5d76d86b-3bb9-4d5a-b822-c9d86f5d8e4f", 1234, "", "eng", flows.ContactStatusActive, nil,
		time.Date(2020, 1, 1, 12, 0, 0, 0, time.UTC), nil, []urns.URN{urn}, nil, nil, nil, assets.PanicOnMissing)
	require.NoError(t, err)

	trigger := triggers.NewBuilder(env, assets.NewFlowReference("50c3706e-fedb-42c0-8eab-dda3335714b7", "Probe"), contact).Manual().Build()
	session, sprint, err := test.NewEngine().NewSession(sa, trigger)
	require.NoError(t, err)
	return session, sprint
}

// Twin contacts that differ only in the path of their (US) tel URN, under RedactionPolicyURNs.
func TestHuntC19AddURNOracle(t *testing.T) {
	sA, _ := huntC19Run(t, envs.RedactionPolicyURNs, "tel:+12065551212")
	sB, _ := huntC19Run(t, envs.RedactionPolicyURNs, "tel:+12065553434")

	for _, tpl := range []string{`@results.probe.value`, `@(count(contact.urns))`, `@(json(contact.urns))`, `@(json(contact))`} {
		outA, _ := sA.Runs()[0].EvaluateTemplate(tpl, func(flows.Event) {})
		outB, _ := sB.Runs()[0].EvaluateTemplate(tpl, func(flows.Event) {})
		assert.Equal(t, outA, outB, "template %s differs between twins that differ only in URN path", tpl)
	}
}
