package definition_test

import (
	"sync"
	"testing"

	"github.com/nyaruka/gocommon/urns"
	"github.com/nyaruka/goflow/assets"
	"github.com/nyaruka/goflow/assets/static"
	"github.com/nyaruka/goflow/contactql"
	"github.com/nyaruka/goflow/envs"
	"github.com/nyaruka/goflow/flows"
	"github.com/nyaruka/goflow/flows/engine"
	"github.com/nyaruka/goflow/flows/triggers"
	"github.com/stretchr/testify/assert"
	"github.com/stretchr/testify/require"
)

// two flows whose names differ only by case - nothing in the readers rejects this
const huntAssets = `{
	"flows": [
		{
			"uuid": "11111111-1111-4111-8111-111111111111",
			"name": "Registration",
			"spec_version": "13.1.0",
			"language": "eng",
			"type": "messaging",
			"nodes": []
		},
		{
			"uuid": "22222222-2222-4222-8222-222222222222",
			"name": "registration",
			"spec_version": "13.1.0",
			"language": "eng",
			"type": "messaging",
			"nodes": []
		}
	]
}`

func huntNewAssets(t *testing.T) flows.SessionAssets {
	source, err := static.NewSource([]byte(huntAssets))
	require.NoError(t, err)
	sa, err := engine.NewSessionAssets(envs.NewBuilder().Build(), source, nil)
	require.NoError(t, err)
	return sa
}

// what one goroutine does: parse a contact query with a flow condition against the shared session assets
// and report which flow the condition was resolved to
func huntResolve(t *testing.T, sa flows.SessionAssets) assets.FlowUUID {
	env := envs.NewBuilder().Build()
	query, err := contactql.ParseQuery(env, `flow = "registration"`, sa)
	require.NoError(t, err)

	cond := query.Root().(*contactql.Condition)
	flow := cond.ValueAsFlow(query.Resolver())
	require.NotNil(t, flow)
	return flow.UUID()
}

// what the other goroutine does: start its own session in the second flow
func huntStartSession(t *testing.T, sa flows.SessionAssets) {
	env := envs.NewBuilder().Build()
	contact := flows.NewEmptyContact(sa, "Bob", "eng", nil)
	contact.AddURN(urns.URN("tel:+12065551212"), nil)
	flowRef := assets.NewFlowReference("22222222-2222-4222-8222-222222222222", "registration")
	trigger := triggers.NewBuilder(env, flowRef, contact).Manual().Build()

	_, _, err := engine.NewBuilder().Build().NewSession(sa, trigger)
	require.NoError(t, err)
}

func TestHuntFindByNameDependsOnOtherSessions(t *testing.T) {
	// alone, from a cold flow cache
	solo := huntResolve(t, huntNewAssets(t))

	// same thing, from a cold flow cache, but another goroutine drives its own session over the same assets
	sa := huntNewAssets(t)

	var wg sync.WaitGroup
	started := make(chan struct{})
	var shared assets.FlowUUID

	wg.Add(2)
	go func() {
		defer wg.Done()
		huntStartSession(t, sa)
		close(started)
	}()
	go func() {
		defer wg.Done()
		<-started // one legal interleaving: the other session gets there first
		shared = huntResolve(t, sa)
	}()
	wg.Wait()

	assert.Equal(t, solo, shared, "flow condition resolved to a different flow because another session had loaded a flow")
}
