package engine_test

import (
	"sync"
	"testing"

	"github.com/nyaruka/gocommon/urns"
	"github.com/nyaruka/goflow/assets"
	"github.com/nyaruka/goflow/assets/static"
	"github.com/nyaruka/goflow/envs"
	"github.com/nyaruka/goflow/flows"
	"github.com/nyaruka/goflow/flows/engine"
	"github.com/nyaruka/goflow/flows/events"
	"github.com/nyaruka/goflow/flows/triggers"
	"github.com/stretchr/testify/assert"
	"github.com/stretchr/testify/require"
)

const (
	huntCopyUUID = assets.FlowUUID("11111111-1111-4111-8111-111111111111")
	huntRealUUID = assets.FlowUUID("22222222-2222-4222-8222-222222222222")
)

// The first flow asset is a legacy export which also carries a top level uuid: the asset is known to the source by
// that uuid (1111..) while its definition (metadata.uuid) still says 2222.. which is the second flow.
const huntAssets = `{
	"flows": [
		{
			"uuid": "11111111-1111-4111-8111-111111111111",
			"name": "Copy",
			"version": "11.12",
			"flow_type": "M",
			"base_language": "eng",
			"metadata": {"uuid": "22222222-2222-4222-8222-222222222222", "name": "Copy", "revision": 1},
			"entry": "d51ec25f-04e6-4349-a448-e7c4d93d4597",
			"action_sets": [
				{
					"uuid": "d51ec25f-04e6-4349-a448-e7c4d93d4597",
					"x": 0, "y": 0,
					"destination": null,
					"exit_uuid": "02a82a0f-34b7-4fe7-8a25-ba0a5d2e2c4f",
					"actions": [
						{"type": "reply", "uuid": "98388930-7a0f-4eb8-9a0a-09be2f006420", "msg": {"eng": "I am the copy"}}
					]
				}
			],
			"rule_sets": []
		},
		{
			"uuid": "22222222-2222-4222-8222-222222222222",
			"name": "Real",
			"spec_version": "13.1.0",
			"language": "eng",
			"type": "messaging",
			"nodes": [
				{
					"uuid": "a58be63b-907d-4a1a-856b-0bb5579d7507",
					"actions": [
						{"uuid": "f01d693b-2af2-49fb-9e38-146eb00937e9", "type": "send_msg", "text": "I am the real one"}
					],
					"exits": [{"uuid": "8d1e2d8e-1ef0-4d5f-a5e1-57c2b5a4c1ea"}]
				}
			]
		}
	]
}`

func huntNewAssets(t *testing.T) flows.SessionAssets {
	source, err := static.NewSource([]byte(huntAssets))
	require.NoError(t, err)
	sa, err := engine.NewSessionAssets(envs.NewBuilder().Build(), source, nil)
	require.NoError(t, err)
	return sa
}

// starts a session for a new contact in the given flow and returns the texts of the messages it created
func huntRun(t *testing.T, sa flows.SessionAssets, flowUUID assets.FlowUUID) []string {
	env := envs.NewBuilder().Build()
	contact := flows.NewEmptyContact(sa, "Bob", "eng", nil)
	contact.AddURN(urns.URN("tel:+12065551212"), nil)
	trigger := triggers.NewBuilder(env, assets.NewFlowReference(flowUUID, ""), contact).Manual().Build()

	_, sprint, err := engine.NewBuilder().Build().NewSession(sa, trigger)
	require.NoError(t, err)

	texts := make([]string, 0)
	for _, e := range sprint.Events() {
		if m, ok := e.(*events.MsgCreatedEvent); ok {
			texts = append(texts, m.Msg.Text())
		}
	}
	return texts
}

func TestHuntSessionRunsFlowLoadedByOtherSession(t *testing.T) {
	// a session in the second flow, alone, from a cold flow cache
	solo := huntRun(t, huntNewAssets(t), huntRealUUID)
	assert.Equal(t, []string{"I am the real one"}, solo)

	// the same session, from a cold flow cache, while another goroutine runs its own session in the first flow
	sa := huntNewAssets(t)

	var wg sync.WaitGroup
	otherDone := make(chan struct{})
	var shared []string

	wg.Add(2)
	go func() {
		defer wg.Done()
		huntRun(t, sa, huntCopyUUID)
		close(otherDone)
	}()
	go func() {
		defer wg.Done()
		<-otherDone // one legal interleaving: the other session gets there first
		shared = huntRun(t, sa, huntRealUUID)
	}()
	wg.Wait()

	assert.Equal(t, solo, shared, "session ran a different flow definition because another session had loaded a flow")
}
