package refactor_test

import (
	"testing"

	"github.com/nyaruka/goflow/envs"
	"github.com/nyaruka/goflow/excellent"
	"github.com/nyaruka/goflow/excellent/refactor"
	"github.com/nyaruka/goflow/excellent/types"
	"github.com/stretchr/testify/assert"
	"github.com/stretchr/testify/require"
)

// Evaluation matches names by strings.ToLower (XObject.Get, functions.Lookup, the template scanner), the rename
// matches them by strings.EqualFold. The two disagree on U+017F (LATIN SMALL LETTER LONG S) which folds to "s" but
// is its own lower case: "reſults" is not the context variable "results" yet it is renamed, and a parameter called
// "reſults" does not shadow "results" yet the reference in its body is left alone.
func TestHuntC11RenameMatchesNamesEvaluationDoesNot(t *testing.T) {
	env := envs.NewBuilder().Build()
	eval := excellent.NewEvaluator()

	value := types.NewXText("R")
	before := types.NewXObject(map[string]types.XValue{"results": value})
	after := types.NewXObject(map[string]types.XValue{"res": value})
	tx := refactor.ContextRefRename("results", "res")

	// 1. a reference to something else is renamed: the original fails, the rewritten template has a value
	template := "@(reſults)"
	_, _, err := eval.Template(env, before, template, nil)
	require.Error(t, err, "reſults is not results for the evaluator") // context has no property 'reſults'

	rewritten, err := refactor.Template(template, nil, tx)
	require.NoError(t, err)
	assert.Equal(t, template, rewritten, "a reference which is not to results must be left alone")

	actual, _, err := eval.Template(env, after, rewritten, nil)
	assert.Error(t, err, "rewritten template %s should fail like the original but gives %s", rewritten, actual)

	// 2. a reference to results is not renamed: the original has a value, the rewritten template fails
	template = "@(foreach(array(1, 2), (reſults) => results & reſults))"
	expected, _, err := eval.Template(env, before, template, nil)
	require.NoError(t, err)
	assert.Equal(t, "[R1, R2]", expected) // the parameter doesn't shadow results

	rewritten, err = refactor.Template(template, nil, tx)
	require.NoError(t, err)
	assert.Equal(t, "@(foreach(array(1, 2), (reſults) => res & reſults))", rewritten)

	actual, _, err = eval.Template(env, after, rewritten, nil)
	assert.NoError(t, err)
	assert.Equal(t, expected, actual, "%s rewritten as %s evaluates differently", template, rewritten)
}
