package refactor_test

import (
	"testing"

	"github.com/nyaruka/goflow/envs"
	"github.com/nyaruka/goflow/excellent"
	"github.com/nyaruka/goflow/excellent/refactor"
	"github.com/nyaruka/goflow/excellent/types"
	"github.com/stretchr/testify/assert"
	"github.com/stretchr/testify/require"
)

// Renaming a reference to a path, as Migrate13_3 does with webhook -> webhook.json, gives a template that no longer
// parses when the path ends in a numeric lookup (bar.1) and the reference is followed by a numeric lookup (foo.2):
// the result is printed as bar.1.2 in which 1.2 is read back as a decimal.
func TestHuntC11RenameToPathEndingInNumericLookup(t *testing.T) {
	env := envs.NewBuilder().Build()
	eval := excellent.NewEvaluator()

	value := types.NewXArray(types.NewXText("a"), types.NewXText("b"), types.NewXText("c"))
	before := types.NewXObject(map[string]types.XValue{"foo": value})
	after := types.NewXObject(map[string]types.XValue{"bar": types.NewXArray(types.NewXText("zero"), value)})

	for _, template := range []string{
		`@(foo.2)`,      // becomes @(bar.1.2)
		`@(foo.0 & "")`, // becomes @(bar.1.0 & "")
		`Hi @foo.2 x`,   // becomes Hi @bar.1.2 x
	} {
		rewritten, err := refactor.Template(template, []string{"foo", "bar"}, refactor.ContextRefRename("foo", "bar.1"))
		require.NoError(t, err)

		expected, _, err := eval.Template(env, before, template, nil)
		require.NoError(t, err)

		actual, _, err := eval.Template(env, after, rewritten, nil)
		assert.NoError(t, err, "%s rewritten as %s no longer evaluates", template, rewritten)
		assert.Equal(t, expected, actual, "%s rewritten as %s evaluates differently", template, rewritten)
	}
}
