package refactor_test

import (
	"testing"

	"github.com/nyaruka/goflow/envs"
	"github.com/nyaruka/goflow/excellent"
	"github.com/nyaruka/goflow/excellent/refactor"
	"github.com/nyaruka/goflow/excellent/types"
	"github.com/stretchr/testify/assert"
	"github.com/stretchr/testify/require"
)

// Renaming the context reference foo to bar must keep the meaning of a template: evaluating the original where the
// value lives under "foo" has to give the same as evaluating the rewritten template where it lives under "bar".
// If the reference sits inside an anonymous function which has a parameter called bar, the renamed reference is
// captured by that parameter and no longer refers to the context.
func TestHuntC11RenameCapturedByLambdaParameter(t *testing.T) {
	env := envs.NewBuilder().Build()
	eval := excellent.NewEvaluator()

	value := types.NewXText("F")
	before := types.NewXObject(map[string]types.XValue{"foo": value})
	after := types.NewXObject(map[string]types.XValue{"bar": value})

	for _, template := range []string{
		`@(foreach(array(1, 2), (bar) => foo & bar))`,
		`@(foreach(array(1, 2), (x, BAR) => foo & x, "p"))`,
		`@(filter(array("F", "G"), (bar) => bar = foo))`,
	} {
		rewritten, err := refactor.Template(template, nil, refactor.ContextRefRename("foo", "bar"))
		require.NoError(t, err)

		expected, _, err1 := eval.Template(env, before, template, nil)
		actual, _, err2 := eval.Template(env, after, rewritten, nil)

		assert.Equal(t, err1 == nil, err2 == nil, "%s rewritten as %s: errors differ: %v vs %v", template, rewritten, err1, err2)
		assert.Equal(t, expected, actual, "%s rewritten as %s evaluates differently", template, rewritten)
	}
}
