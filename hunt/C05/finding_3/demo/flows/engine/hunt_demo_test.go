package engine_test

// C05 hunt, finding 3: a send_msg whose text is one deeply nested expression, `@((((...1...))))` with 500,000 levels (1 MB),
// makes the sprint die with "fatal error: stack overflow" - the recursive descent of the generated Excellent parser
// outgrows Go's 1 GB goroutine stack limit. That isn't a panic a host can recover from: the whole process exits.

import (
	"fmt"
	"os"
	"os/exec"
	"strings"
	"syscall"
	"testing"
	"time"

	"github.com/nyaruka/gocommon/urns"
	"github.com/nyaruka/gocommon/uuids"
	"github.com/nyaruka/goflow/assets"
	"github.com/nyaruka/goflow/assets/static"
	"github.com/nyaruka/goflow/envs"
	"github.com/nyaruka/goflow/flows"
	"github.com/nyaruka/goflow/flows/engine"
	"github.com/nyaruka/goflow/flows/triggers"
)

const huntC05F3Assets = `{
"flows": [
  {
    "uuid": "11111111-1111-4111-8111-111111111111", "name": "Nested", "spec_version": "13.1.0", "language": "eng", "type": "messaging",
    "nodes": [
      {
        "uuid": "a1111111-1111-4111-8111-111111111111",
        "actions": [{"type": "send_msg", "uuid": "c1111111-1111-4111-8111-111111111111", "text": "%s"}],
        "exits": [{"uuid": "e1111111-1111-4111-8111-111111111111"}]
      }
    ]
  }
]}`

func huntC05F3Start(t *testing.T, text string) (flows.Session, flows.Sprint) {
	source, err := static.NewSource([]byte(fmt.Sprintf(huntC05F3Assets, text)))
	if err != nil {
		t.Fatal(err)
	}
	sa, err := engine.NewSessionAssets(envs.NewBuilder().Build(), source, nil)
	if err != nil {
		t.Fatal(err)
	}
	contact, err := flows.NewContact(sa, flows.ContactUUID(uuids.NewV4()), 1, "Bob", "eng", flows.ContactStatusActive, nil,
		time.Date(2020, 1, 1, 0, 0, 0, 0, time.UTC), nil, []urns.URN{"tel:+12065551212"}, nil, nil, nil, assets.PanicOnMissing)
	if err != nil {
		t.Fatal(err)
	}
	flow := assets.NewFlowReference("11111111-1111-4111-8111-111111111111", "Nested")
	trigger := triggers.NewBuilder(envs.NewBuilder().Build(), flow, contact).Manual().Build()

	session, sprint, err := engine.NewBuilder().Build().NewSession(sa, trigger) // default options
	if err != nil {
		t.Fatalf("engine call returned a Go error: %s", err)
	}
	return session, sprint
}

func huntC05F3Template(kind string, depth int) string {
	if kind == "minus" {
		return "@(" + strings.Repeat("-", depth) + "1)"
	}
	return "@(" + strings.Repeat("(", depth) + "1" + strings.Repeat(")", depth) + ")"
}

func TestHuntC05DeeplyNestedExpressionOverflowsStack(t *testing.T) {
	// a thousand levels is no problem
	session, sprint := huntC05F3Start(t, huntC05F3Template("parens", 1000))
	if session.Status() != flows.SessionStatusCompleted || len(sprint.Events()) != 1 {
		t.Fatalf("session is %s with %d events", session.Status(), len(sprint.Events()))
	}

	// half a million are.. the call is made in a child process because what happens can't be recovered from
	for _, kind := range []string{"parens", "minus"} {
		cmd := exec.Command(os.Args[0], "-test.run=^TestHuntC05F3ChildProcess$", "-test.v")
		cmd.Env = append(os.Environ(), "HUNT_C05_F3_CHILD="+kind)
		out, err := cmd.CombinedOutput()
		if err != nil {
			lines := strings.Split(strings.TrimSpace(string(out)), "\n")
			t.Errorf("%s: engine call did not return normally (%s), child process said:\n%s", kind, err, strings.Join(lines[:min(len(lines), 4)], "\n"))
		} else {
			t.Logf("%s: %s", kind, out)
		}
	}
}

// not a test in its own right: the body only runs in the child process started above
func TestHuntC05F3ChildProcess(t *testing.T) {
	kind := os.Getenv("HUNT_C05_F3_CHILD")
	if kind == "" {
		t.Skip("only runs as a child of TestHuntC05DeeplyNestedExpressionOverflowsStack")
	}
	limit := &syscall.Rlimit{Cur: 8 << 30, Max: 8 << 30}
	if err := syscall.Setrlimit(syscall.RLIMIT_AS, limit); err != nil {
		t.Fatalf("can't cap address space, not going on: %s", err)
	}

	session, sprint := huntC05F3Start(t, huntC05F3Template(kind, 500_000))

	// either a message or an error event about the expression would be fine
	fmt.Printf("returned normally: session %s with %d events\n", session.Status(), len(sprint.Events()))
}
