package engine_test

// C05 hunt, finding 5: the attachment of the message that a play_audio action creates isn't held to
// flows.MaxAttachmentLength (2048) the way the attachments of a send_msg are: its audio URL is an evaluated template so
// can be as long as MaxTemplateChars (10,000 by default).

import (
	"testing"
	"time"

	"github.com/nyaruka/gocommon/urns"
	"github.com/nyaruka/gocommon/uuids"
	"github.com/nyaruka/goflow/assets"
	"github.com/nyaruka/goflow/assets/static"
	"github.com/nyaruka/goflow/envs"
	"github.com/nyaruka/goflow/flows"
	"github.com/nyaruka/goflow/flows/engine"
	"github.com/nyaruka/goflow/flows/events"
	"github.com/nyaruka/goflow/flows/triggers"
)

const huntC05F5Assets = `{
"channels": [{"uuid": "57f1078f-88aa-46f4-a59a-948a5739c03d", "name": "Twilio", "address": "+12345", "schemes": ["tel"], "roles": ["send", "receive", "call", "answer"]}],
"flows": [
  {
    "uuid": "11111111-1111-4111-8111-111111111111", "name": "Voice", "spec_version": "13.1.0", "language": "eng", "type": "voice",
    "nodes": [
      {
        "uuid": "a1111111-1111-4111-8111-111111111111",
        "actions": [
          {"type": "play_audio", "uuid": "c1111111-1111-4111-8111-111111111111", "audio_url": "http://temba.io/@(repeat(\"a\", 3000)).mp3"}
        ],
        "exits": [{"uuid": "e1111111-1111-4111-8111-111111111111"}]
      }
    ]
  },
  {
    "uuid": "22222222-2222-4222-8222-222222222222", "name": "Messaging", "spec_version": "13.1.0", "language": "eng", "type": "messaging",
    "nodes": [
      {
        "uuid": "a2222222-2222-4222-8222-222222222222",
        "actions": [
          {"type": "send_msg", "uuid": "c2222222-2222-4222-8222-222222222222", "text": "hi", "attachments": ["audio:http://temba.io/@(repeat(\"a\", 3000)).mp3"]}
        ],
        "exits": [{"uuid": "e2222222-2222-4222-8222-222222222222"}]
      }
    ]
  }
]}`

func TestHuntC05PlayAudioAttachmentLength(t *testing.T) {
	source, err := static.NewSource([]byte(huntC05F5Assets))
	if err != nil {
		t.Fatal(err)
	}
	env := envs.NewBuilder().Build()
	sa, err := engine.NewSessionAssets(env, source, nil)
	if err != nil {
		t.Fatal(err)
	}
	contact, err := flows.NewContact(sa, flows.ContactUUID(uuids.NewV4()), 1, "Bob", "eng", flows.ContactStatusActive, nil,
		time.Date(2020, 1, 1, 0, 0, 0, 0, time.UTC), nil, []urns.URN{"tel:+12065551212"}, nil, nil, nil, assets.PanicOnMissing)
	if err != nil {
		t.Fatal(err)
	}
	channel := assets.NewChannelReference("57f1078f-88aa-46f4-a59a-948a5739c03d", "Twilio")

	check := func(sprint flows.Sprint) {
		created := 0
		for _, e := range sprint.Events() {
			var msg *flows.MsgOut
			switch typed := e.(type) {
			case *events.MsgCreatedEvent:
				msg = typed.Msg
			case *events.IVRCreatedEvent:
				msg = typed.Msg
			case *events.ErrorEvent:
				t.Logf("error event: %s", typed.Text)
				continue
			default:
				continue
			}
			created++
			for _, a := range msg.Attachments() {
				if len(a) > flows.MaxAttachmentLength {
					t.Errorf("%s event has a message with an attachment of %d chars, limit is %d", e.Type(), len(a), flows.MaxAttachmentLength)
				}
			}
		}
		t.Logf("%d messages created", created)
	}

	// the same attachment on a send_msg is held to the limit: the message is created without it
	trigger := triggers.NewBuilder(env, assets.NewFlowReference("22222222-2222-4222-8222-222222222222", "Messaging"), contact).Manual().Build()
	_, sprint, err := engine.NewBuilder().Build().NewSession(sa, trigger)
	if err != nil {
		t.Fatal(err)
	}
	check(sprint)

	trigger = triggers.NewBuilder(env, assets.NewFlowReference("11111111-1111-4111-8111-111111111111", "Voice"), contact).Manual().WithCall(channel, "tel:+12065551212").Build()
	_, sprint, err = engine.NewBuilder().Build().NewSession(sa, trigger)
	if err != nil {
		t.Fatal(err)
	}
	check(sprint)
}
