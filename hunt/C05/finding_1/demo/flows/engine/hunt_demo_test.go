package engine_test

// C05 hunt, finding 1: a switch router that reads back its own result's `input` doubles the size of the stored
// operand on every step, so the step limit doesn't bound a sprint - with the default options the engine call dies
// of memory exhaustion (a fatal error, not a recoverable panic) long before it reaches the 100 step limit.

import (
	"fmt"
	"os"
	"os/exec"
	"strings"
	"syscall"
	"testing"
	"time"

	"github.com/nyaruka/gocommon/urns"
	"github.com/nyaruka/gocommon/uuids"
	"github.com/nyaruka/goflow/assets"
	"github.com/nyaruka/goflow/assets/static"
	"github.com/nyaruka/goflow/envs"
	"github.com/nyaruka/goflow/flows"
	"github.com/nyaruka/goflow/flows/engine"
	"github.com/nyaruka/goflow/flows/triggers"
)

// one node, no actions: a switch router with no cases whose only category exits back to the same node, which saves
// its operand as result "r".. and whose operand is that saved operand, twice
const huntC05F1Assets = `{
"flows": [
  {
    "uuid": "11111111-1111-4111-8111-111111111111", "name": "Doubler", "spec_version": "13.1.0", "language": "eng", "type": "messaging",
    "nodes": [
      {
        "uuid": "a1111111-1111-4111-8111-111111111111",
        "router": {
          "type": "switch",
          "operand": "@(results.r.input & results.r.input & \"x\")",
          "result_name": "r",
          "categories": [{"uuid": "d1111111-1111-4111-8111-111111111111", "name": "All", "exit_uuid": "e1111111-1111-4111-8111-111111111111"}],
          "default_category_uuid": "d1111111-1111-4111-8111-111111111111",
          "cases": []
        },
        "exits": [{"uuid": "e1111111-1111-4111-8111-111111111111", "destination_uuid": "a1111111-1111-4111-8111-111111111111"}]
      }
    ]
  }
]}`

func huntC05F1Start(t *testing.T, eng flows.Engine) (flows.Session, flows.Sprint) {
	source, err := static.NewSource([]byte(huntC05F1Assets))
	if err != nil {
		t.Fatal(err)
	}
	sa, err := engine.NewSessionAssets(envs.NewBuilder().Build(), source, nil)
	if err != nil {
		t.Fatal(err)
	}
	contact, err := flows.NewContact(sa, flows.ContactUUID(uuids.NewV4()), 1, "Bob", "eng", flows.ContactStatusActive, nil,
		time.Date(2020, 1, 1, 0, 0, 0, 0, time.UTC), nil, []urns.URN{"tel:+12065551212"}, nil, nil, nil, assets.PanicOnMissing)
	if err != nil {
		t.Fatal(err)
	}
	flow := assets.NewFlowReference("11111111-1111-4111-8111-111111111111", "Doubler")
	trigger := triggers.NewBuilder(envs.NewBuilder().Build(), flow, contact).Manual().Build()

	session, sprint, err := eng.NewSession(sa, trigger)
	if err != nil {
		t.Fatalf("engine call returned a Go error: %s", err)
	}
	return session, sprint
}

func TestHuntC05RouterOperandDoublesResultInput(t *testing.T) {
	// 1. with small step limits the sprint does end as the property says.. but what it keeps doubles with each step
	bounded := true
	for _, maxSteps := range []int{4, 8, 12, 16, 20} {
		eng := engine.NewBuilder().WithMaxStepsPerSprint(maxSteps).Build()
		start := time.Now()
		session, _ := huntC05F1Start(t, eng)
		result := session.Runs()[0].Results().Get("r")

		t.Logf("max steps %2d: session %s, result value %d chars, result input %d chars, took %s", maxSteps, session.Status(), len(result.Value), len(result.Input), time.Since(start))

		if len(result.Value) > eng.Options().MaxResultChars {
			t.Errorf("result value has %d chars", len(result.Value))
		}
		// no other evaluated text is allowed to be longer than this
		if len(result.Input) > eng.Options().MaxTemplateChars {
			bounded = false
			t.Errorf("max steps %d: text kept on the result is %d chars (2^%d - 1), limit for an evaluated template is %d", maxSteps, len(result.Input), maxSteps-1, eng.Options().MaxTemplateChars)
		}
	}

	// 2. and so with the default options (100 steps) the call can't return. To show that without taking the machine
	// down, it's made in a child process which caps its own address space at 4GiB
	out, err := huntC05F1Child(t)
	if err != nil {
		lines := strings.Split(strings.TrimSpace(out), "\n")
		t.Errorf("engine call with default options did not return normally (%s), child process said:\n%s", err, strings.Join(lines[:min(len(lines), 4)], "\n"))
	} else if !bounded {
		t.Errorf("unexpected: child returned: %s", out)
	}
}

func huntC05F1Child(t *testing.T) (string, error) {
	cmd := exec.Command(os.Args[0], "-test.run=^TestHuntC05F1ChildProcess$", "-test.v")
	cmd.Env = append(os.Environ(), "HUNT_C05_F1_CHILD=1")
	done := make(chan struct{})
	var out []byte
	var err error
	go func() { out, err = cmd.CombinedOutput(); close(done) }()
	select {
	case <-done:
	case <-time.After(3 * time.Minute):
		cmd.Process.Kill()
		<-done
		err = fmt.Errorf("killed after 3 minutes")
	}
	return string(out), err
}

// not a test in its own right: the body only runs in the child process started above
func TestHuntC05F1ChildProcess(t *testing.T) {
	if os.Getenv("HUNT_C05_F1_CHILD") != "1" {
		t.Skip("only runs as a child of TestHuntC05RouterOperandDoublesResultInput")
	}
	limit := &syscall.Rlimit{Cur: 4 << 30, Max: 4 << 30}
	if err := syscall.Setrlimit(syscall.RLIMIT_AS, limit); err != nil {
		t.Fatalf("can't cap address space, not going on: %s", err)
	}

	session, sprint := huntC05F1Start(t, engine.NewBuilder().Build()) // default options

	failures := 0
	for _, e := range sprint.Events() {
		if e.Type() == "failure" {
			failures++
		}
	}
	if session.Status() != flows.SessionStatusFailed || failures == 0 {
		t.Fatalf("session is %s with %d failure events", session.Status(), failures)
	}
	steps := 0
	for _, r := range session.Runs() {
		steps += len(r.Path())
	}
	fmt.Printf("returned normally: session %s after %d steps\n", session.Status(), steps)
}
