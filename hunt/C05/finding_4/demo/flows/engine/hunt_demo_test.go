package engine_test

// C05 hunt, finding 4: a trigger's contact is optional (triggers.NewBuilder(env, flow, nil), see TestTriggerSessionInitialization in flows/triggers/base_test.go:
// "contact, environment and params are optional") and the engine itself allows for a session without a contact, but
// any action which reads or changes the contact panics with a nil pointer dereference.

import (
	"fmt"
	"testing"

	"github.com/nyaruka/goflow/assets"
	"github.com/nyaruka/goflow/assets/static"
	"github.com/nyaruka/goflow/envs"
	"github.com/nyaruka/goflow/flows/engine"
	"github.com/nyaruka/goflow/flows/triggers"
)

const huntC05F4Assets = `{
"flows": [
  {
    "uuid": "11111111-1111-4111-8111-111111111111", "name": "F", "spec_version": "13.1.0", "language": "eng", "type": "messaging",
    "nodes": [
      {
        "uuid": "a1111111-1111-4111-8111-111111111111",
        "actions": [%s],
        "exits": [{"uuid": "e1111111-1111-4111-8111-111111111111"}]
      }
    ]
  }
],
"fields": [{"uuid": "f1111111-1111-4111-8111-111111111111", "key": "gender", "name": "Gender", "type": "text"}],
"groups": [{"uuid": "b1111111-1111-4111-8111-111111111111", "name": "Testers"}]
}`

func TestHuntC05SessionWithoutContactPanics(t *testing.T) {
	actions := map[string]string{
		"set_run_result":       `{"type": "set_run_result", "uuid": "c1111111-1111-4111-8111-111111111111", "name": "R", "value": "@contact.name"}`, // fine
		"send_msg":             `{"type": "send_msg", "uuid": "c1111111-1111-4111-8111-111111111111", "text": "hi"}`,
		"set_contact_name":     `{"type": "set_contact_name", "uuid": "c1111111-1111-4111-8111-111111111111", "name": "Bob"}`,
		"set_contact_language": `{"type": "set_contact_language", "uuid": "c1111111-1111-4111-8111-111111111111", "language": "eng"}`,
		"set_contact_field":    `{"type": "set_contact_field", "uuid": "c1111111-1111-4111-8111-111111111111", "field": {"key": "gender", "name": "Gender"}, "value": "M"}`,
		"add_contact_groups":   `{"type": "add_contact_groups", "uuid": "c1111111-1111-4111-8111-111111111111", "groups": [{"uuid": "b1111111-1111-4111-8111-111111111111", "name": "Testers"}]}`,
		"add_contact_urn":      `{"type": "add_contact_urn", "uuid": "c1111111-1111-4111-8111-111111111111", "scheme": "tel", "path": "+12065551212"}`,
	}

	for name, action := range actions {
		t.Run(name, func(t *testing.T) {
			source, err := static.NewSource([]byte(fmt.Sprintf(huntC05F4Assets, action)))
			if err != nil {
				t.Fatal(err)
			}
			sa, err := engine.NewSessionAssets(envs.NewBuilder().Build(), source, nil)
			if err != nil {
				t.Fatal(err)
			}

			flow := assets.NewFlowReference("11111111-1111-4111-8111-111111111111", "F")
			trigger := triggers.NewBuilder(nil, flow, nil).Manual().Build() // as in flows/triggers/base_test.go

			defer func() {
				if r := recover(); r != nil {
					t.Errorf("engine call panicked: %v", r)
				}
			}()

			session, sprint, err := engine.NewBuilder().Build().NewSession(sa, trigger)
			if err != nil {
				t.Logf("returned error: %s", err) // would be fine
				return
			}
			t.Logf("session %s with %d events", session.Status(), len(sprint.Events()))
		})
	}
}
