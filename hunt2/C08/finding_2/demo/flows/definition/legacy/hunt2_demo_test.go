package legacy_test

import (
	"fmt"
	"strings"
	"testing"

	"github.com/nyaruka/gocommon/jsonx"
	"github.com/nyaruka/goflow/assets"
	"github.com/nyaruka/goflow/assets/static"
	"github.com/nyaruka/goflow/envs"
	"github.com/nyaruka/goflow/flows"
	"github.com/nyaruka/goflow/flows/definition/migrations"
	"github.com/nyaruka/goflow/flows/engine"
	"github.com/nyaruka/goflow/flows/triggers"
	"github.com/stretchr/testify/assert"
	"github.com/stretchr/testify/require"
)

// a legacy (v11) flow with one airtime ruleset whose config has three countries: one amount is outside the range the
// migration accepts (1e200) and the other two give different amounts for the same currency
const hunt2C08LegacyAirtime = `{
  "metadata": {"uuid": "22222222-2222-4222-8222-222222222222", "name": "Airtime", "revision": 1, "expires": 10},
  "version": "11.12",
  "flow_type": "M",
  "base_language": "eng",
  "entry": "75656148-9e8b-4611-82c0-7ff4b55fb44a",
  "action_sets": [],
  "rule_sets": [
    {
      "uuid": "75656148-9e8b-4611-82c0-7ff4b55fb44a",
      "x": 0, "y": 0,
      "label": "Transfer",
      "ruleset_type": "airtime",
      "operand": "@step.value",
      "rules": [
        {
          "uuid": "6103fa71-6ca9-4300-aec6-929f50fa1ae0",
          "category": {"eng": "Success"},
          "test": {"type": "airtime_status", "exit_status": "success"}
        },
        {
          "uuid": "bcb18434-1932-4a38-a4cd-a2c4a70b8e9a",
          "category": {"eng": "Failure"},
          "test": {"type": "airtime_status", "exit_status": "failed"}
        }
      ],
      "config": {
        "RW": {"currency_code": "RWF", "amount": 1e200},
        "EC": {"currency_code": "USD", "amount": 3},
        "PR": {"currency_code": "USD", "amount": 5}
      }
    }
  ]
}`

const hunt2C08AirtimeParent = `{
  "uuid": "11111111-1111-4111-8111-111111111111",
  "name": "Parent",
  "spec_version": "13.6.1",
  "language": "eng",
  "type": "messaging",
  "nodes": [
    {
      "uuid": "a0000000-0000-4000-8000-000000000001",
      "actions": [
        {
          "uuid": "b0000000-0000-4000-8000-000000000001",
          "type": "enter_flow",
          "flow": {"uuid": "22222222-2222-4222-8222-222222222222", "name": "Airtime"}
        }
      ],
      "exits": [{"uuid": "c0000000-0000-4000-8000-000000000001"}]
    }
  ]
}`

// definition migration: the same definition gives different output (error text) from call to call
func TestHunt2C08LegacyAirtimeMigrationErrorText(t *testing.T) {
	seen := map[string]int{}
	for i := 0; i < 200; i++ {
		_, err := migrations.MigrateToLatest([]byte(hunt2C08LegacyAirtime), migrations.DefaultConfig)
		require.Error(t, err)
		seen[err.Error()]++
	}
	assert.Len(t, seen, 1, "migrating the same definition 200 times gave different errors")
}

// engine: a session which enters that flow gets a failure event whose text differs from execution to execution
func TestHunt2C08LegacyAirtimeFailureEventText(t *testing.T) {
	assetsJSON := fmt.Sprintf(`{"flows": [%s, %s]}`, hunt2C08AirtimeParent, hunt2C08LegacyAirtime)
	env := envs.NewBuilder().Build()

	seen := map[string]int{}
	for i := 0; i < 200; i++ {
		src, err := static.NewSource([]byte(assetsJSON))
		require.NoError(t, err)
		sa, err := engine.NewSessionAssets(env, src, nil)
		require.NoError(t, err)

		contact := flows.NewEmptyContact(sa, "Bob", "eng", nil)
		trigger := triggers.NewBuilder(env, assets.NewFlowReference("11111111-1111-4111-8111-111111111111", "Parent"), contact).Manual().Build()
		_, sprint, err := engine.NewBuilder().Build().NewSession(sa, trigger)
		require.NoError(t, err)

		for _, e := range sprint.Events() {
			if e.Type() == "failure" {
				text := string(jsonx.MustMarshal(e))
				seen[text[strings.Index(text, `"text"`):]]++
			}
		}
	}
	assert.Len(t, seen, 1, "the failure event of the same scenario had different texts in 200 executions")
}
