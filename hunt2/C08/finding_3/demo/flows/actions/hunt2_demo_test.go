package actions_test

import (
	"fmt"
	"os"
	"os/exec"
	"strings"
	"testing"
	"time"

	"github.com/nyaruka/gocommon/dates"
	"github.com/nyaruka/gocommon/jsonx"
	"github.com/nyaruka/gocommon/random"
	"github.com/nyaruka/gocommon/uuids"
	"github.com/nyaruka/goflow/assets"
	"github.com/nyaruka/goflow/assets/static"
	"github.com/nyaruka/goflow/envs"
	"github.com/nyaruka/goflow/flows"
	"github.com/nyaruka/goflow/flows/engine"
	"github.com/nyaruka/goflow/flows/resumes"
	"github.com/nyaruka/goflow/flows/triggers"
	"github.com/stretchr/testify/require"
)

// The flow asks the contact for their timezone, stores the answer with set_contact_timezone and then tells them the time.
const hunt2C08LocalTZAssets = `{
  "flows": [
    {
      "uuid": "11111111-1111-4111-8111-111111111111",
      "name": "Timezone",
      "spec_version": "13.6.1",
      "language": "eng",
      "type": "messaging",
      "nodes": [
        {
          "uuid": "a0000000-0000-4000-8000-000000000001",
          "actions": [
            {"uuid": "b0000000-0000-4000-8000-000000000001", "type": "send_msg", "text": "What is your timezone?"}
          ],
          "exits": [{"uuid": "c0000000-0000-4000-8000-000000000001", "destination_uuid": "a0000000-0000-4000-8000-000000000002"}]
        },
        {
          "uuid": "a0000000-0000-4000-8000-000000000002",
          "router": {
            "type": "switch",
            "wait": {"type": "msg"},
            "operand": "@input.text",
            "cases": [],
            "categories": [{"uuid": "d0000000-0000-4000-8000-000000000001", "name": "All Responses", "exit_uuid": "c0000000-0000-4000-8000-000000000002"}],
            "default_category_uuid": "d0000000-0000-4000-8000-000000000001"
          },
          "exits": [{"uuid": "c0000000-0000-4000-8000-000000000002", "destination_uuid": "a0000000-0000-4000-8000-000000000003"}]
        },
        {
          "uuid": "a0000000-0000-4000-8000-000000000003",
          "actions": [
            {"uuid": "b0000000-0000-4000-8000-000000000002", "type": "set_contact_timezone", "timezone": "@input.text"},
            {"uuid": "b0000000-0000-4000-8000-000000000003", "type": "send_msg", "text": "It is now @(format_datetime(now(), \"YYYY-MM-DD tt:mm\")) where you are"}
          ],
          "exits": [{"uuid": "c0000000-0000-4000-8000-000000000003"}]
        }
      ]
    }
  ]
}`

// runs the scenario with a fixed clock, UUID source and random source: the contact answers "Local"
func hunt2C08LocalTZScenario() (string, error) {
	uuids.SetGenerator(uuids.NewSeededGenerator(12345, dates.NewSequentialNow(time.Date(2025, 1, 1, 0, 0, 0, 0, time.UTC), time.Second)))
	dates.SetNowFunc(dates.NewSequentialNow(time.Date(2025, 1, 1, 12, 0, 0, 0, time.UTC), time.Second))
	random.SetGenerator(random.NewSeededGenerator(123))

	src, err := static.NewSource([]byte(hunt2C08LocalTZAssets))
	if err != nil {
		return "", err
	}
	env := envs.NewBuilder().WithTimezone(time.UTC).Build()
	sa, err := engine.NewSessionAssets(env, src, nil)
	if err != nil {
		return "", err
	}

	contact := flows.NewEmptyContact(sa, "Bob", "eng", nil)
	trigger := triggers.NewBuilder(env, assets.NewFlowReference("11111111-1111-4111-8111-111111111111", "Timezone"), contact).Manual().Build()

	eng := engine.NewBuilder().Build()
	session, _, err := eng.NewSession(sa, trigger)
	if err != nil {
		return "", err
	}

	msg := flows.NewMsgIn(flows.MsgUUID(uuids.NewV4()), "tel:+12065551212", nil, "Local", nil)
	sprint, err := session.Resume(resumes.NewMsg(env, nil, msg))
	if err != nil {
		return "", err
	}

	return string(jsonx.MustMarshal(sprint.Events())) + "\n" + string(jsonx.MustMarshal(session)), nil
}

func TestHunt2C08LocalTimezoneDependsOnProcess(t *testing.T) {
	// child mode: run the scenario and print the result
	if os.Getenv("HUNT2_C08_CHILD") == "1" {
		out, err := hunt2C08LocalTZScenario()
		if err != nil {
			fmt.Printf("HUNT2ERR %s\n", err)
		} else {
			fmt.Printf("HUNT2OUT %s\nHUNT2END\n", out)
		}
		return
	}

	if _, err := os.Stat("/usr/share/zoneinfo/Asia/Tokyo"); err != nil {
		t.Skip("no system zoneinfo to give the child process a different TZ")
	}

	// parent mode: same scenario in two fresh processes which only differ in the TZ environment variable
	runChild := func(tz string) string {
		cmd := exec.Command(os.Args[0], "-test.run=^TestHunt2C08LocalTimezoneDependsOnProcess$", "-test.count=1")
		cmd.Env = append(os.Environ(), "HUNT2_C08_CHILD=1", "TZ="+tz)
		out, err := cmd.CombinedOutput()
		require.NoError(t, err, string(out))
		s := string(out)
		require.Contains(t, s, "HUNT2OUT ", s)
		s = s[strings.Index(s, "HUNT2OUT ")+len("HUNT2OUT "):]
		return s[:strings.Index(s, "\nHUNT2END")]
	}

	out1 := runChild("UTC")
	out2 := runChild("Asia/Tokyo")

	if out1 != out2 {
		events1, events2 := strings.Split(out1, "\n")[0], strings.Split(out2, "\n")[0]
		t.Errorf("same assets, trigger, resume, clock, UUID and random source, but events (and session JSON) differ between two processes:\n TZ=UTC:        %s\n TZ=Asia/Tokyo: %s", events1, events2)
	}
}
