package engine_test

import (
	"testing"
	"time"

	"github.com/nyaruka/gocommon/dates"
	"github.com/nyaruka/gocommon/jsonx"
	"github.com/nyaruka/gocommon/random"
	"github.com/nyaruka/gocommon/uuids"
	"github.com/nyaruka/goflow/assets"
	"github.com/nyaruka/goflow/assets/static"
	"github.com/nyaruka/goflow/envs"
	"github.com/nyaruka/goflow/flows"
	"github.com/nyaruka/goflow/flows/engine"
	"github.com/nyaruka/goflow/flows/triggers"
	"github.com/stretchr/testify/require"
)

// A parent flow in the current spec version which enters a child flow that is stored in an older spec version
// (13.0.0, a send_msg with `templating`), so the child is migrated when it is first loaded from the assets.
const hunt2C08LazyMigrationAssets = `{
  "flows": [
    {
      "uuid": "11111111-1111-4111-8111-111111111111",
      "name": "Parent",
      "spec_version": "13.6.1",
      "language": "eng",
      "type": "messaging",
      "nodes": [
        {
          "uuid": "a0000000-0000-4000-8000-000000000001",
          "actions": [
            {
              "uuid": "b0000000-0000-4000-8000-000000000001",
              "type": "enter_flow",
              "flow": {"uuid": "22222222-2222-4222-8222-222222222222", "name": "Child"}
            }
          ],
          "exits": [{"uuid": "c0000000-0000-4000-8000-000000000001"}]
        }
      ]
    },
    {
      "uuid": "22222222-2222-4222-8222-222222222222",
      "name": "Child",
      "spec_version": "13.0.0",
      "language": "eng",
      "type": "messaging",
      "nodes": [
        {
          "uuid": "a0000000-0000-4000-8000-000000000002",
          "actions": [
            {
              "uuid": "b0000000-0000-4000-8000-000000000002",
              "type": "send_msg",
              "text": "Hi there",
              "templating": {
                "template": {"uuid": "33333333-3333-4333-8333-333333333333", "name": "greeting"},
                "variables": ["@contact.name"]
              }
            }
          ],
          "exits": [{"uuid": "c0000000-0000-4000-8000-000000000002"}]
        }
      ]
    }
  ]
}`

// runs the same trigger against the given assets with the same clock, UUID source and random source, and returns
// the session and events as JSON
func hunt2C08RunOnce(t *testing.T, sa flows.SessionAssets) (string, string) {
	uuids.SetGenerator(uuids.NewSeededGenerator(12345, dates.NewSequentialNow(time.Date(2025, 1, 1, 0, 0, 0, 0, time.UTC), time.Second)))
	dates.SetNowFunc(dates.NewSequentialNow(time.Date(2025, 1, 1, 12, 0, 0, 0, time.UTC), time.Second))
	random.SetGenerator(random.NewSeededGenerator(123))
	defer uuids.SetGenerator(uuids.DefaultGenerator)
	defer dates.SetNowFunc(time.Now)
	defer random.SetGenerator(random.DefaultGenerator)

	env := envs.NewBuilder().Build()
	contact := flows.NewEmptyContact(sa, "Bob", "eng", nil)
	trigger := triggers.NewBuilder(env, assets.NewFlowReference("11111111-1111-4111-8111-111111111111", "Parent"), contact).Manual().Build()

	eng := engine.NewBuilder().Build()
	session, sprint, err := eng.NewSession(sa, trigger)
	require.NoError(t, err)

	return string(jsonx.MustMarshal(session)), string(jsonx.MustMarshal(sprint.Events()))
}

func TestHunt2C08LazyMigrationDrawsFromUUIDSource(t *testing.T) {
	src, err := static.NewSource([]byte(hunt2C08LazyMigrationAssets))
	require.NoError(t, err)
	sa, err := engine.NewSessionAssets(envs.NewBuilder().Build(), src, nil)
	require.NoError(t, err)

	// same assets, trigger, clock, UUID source and random source: first execution (flow cache is cold, so the child
	// flow is migrated in the middle of the sprint) and second execution (child flow comes from the cache)
	session1, events1 := hunt2C08RunOnce(t, sa)
	session2, events2 := hunt2C08RunOnce(t, sa)

	if events1 != events2 {
		t.Errorf("events differ between two executions with identical inputs:\n cold flow cache: %s\n warm flow cache: %s", events1, events2)
	}
	if session1 != session2 {
		t.Errorf("session JSON differs between two executions with identical inputs (run, step and message UUIDs)")
	}

	// a third execution, again with a warm cache, is identical to the second: only the first one is the odd one out
	session3, events3 := hunt2C08RunOnce(t, sa)
	if events2 != events3 || session2 != session3 {
		t.Errorf("second and third executions differ as well")
	}
}
