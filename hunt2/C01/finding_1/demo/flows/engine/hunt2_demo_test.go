package engine_test

import (
	"testing"

	"github.com/nyaruka/gocommon/jsonx"
	"github.com/nyaruka/gocommon/urns"
	"github.com/nyaruka/goflow/assets"
	"github.com/nyaruka/goflow/assets/static"
	"github.com/nyaruka/goflow/envs"
	"github.com/nyaruka/goflow/flows"
	"github.com/nyaruka/goflow/flows/engine"
	"github.com/nyaruka/goflow/flows/events"
	"github.com/nyaruka/goflow/flows/resumes"
	"github.com/nyaruka/goflow/flows/triggers"
	"github.com/stretchr/testify/assert"
	"github.com/stretchr/testify/require"
)

const (
	hunt2CopyUUID = assets.FlowUUID("11111111-1111-4111-8111-111111111111")
	hunt2RealUUID = assets.FlowUUID("22222222-2222-4222-8222-222222222222")
)

// Flow asset 1111.. ("Copy") is a legacy export which also carries a top level uuid: the source knows the asset by that
// uuid (static.Flow.UnmarshalJSON takes the top level key first) while the migrated definition takes its uuid from
// metadata.uuid, which still is 2222.. - the uuid of the flow it was copied from, also an asset of the same source.
// Both assets load and run without any error (the same premise as the repaired C09 finding, commit 968ef02).
const hunt2Assets = `{
	"flows": [
		{
			"uuid": "11111111-1111-4111-8111-111111111111",
			"name": "Copy",
			"version": "11.12",
			"flow_type": "M",
			"base_language": "eng",
			"metadata": {"uuid": "22222222-2222-4222-8222-222222222222", "name": "Copy", "revision": 1, "expires": 60},
			"entry": "d51ec25f-04e6-4349-a448-e7c4d93d4597",
			"action_sets": [
				{
					"uuid": "d51ec25f-04e6-4349-a448-e7c4d93d4597",
					"x": 0, "y": 0,
					"destination": "3a4b3f2c-5b0e-4f0e-a4e4-2d6f3a0d9a11",
					"destination_type": "R",
					"exit_uuid": "02a82a0f-34b7-4fe7-8a25-ba0a5d2e2c4f",
					"actions": [
						{"type": "reply", "uuid": "98388930-7a0f-4eb8-9a0a-09be2f006420", "msg": {"eng": "Copy: what is your name?"}}
					]
				},
				{
					"uuid": "6e2a6d9e-94f3-4a0b-9b0e-0d3b3d9b7c22",
					"x": 0, "y": 200,
					"destination": null,
					"exit_uuid": "b0a1f2d4-6a2b-4d1c-8a77-3a7e2f1b9c33",
					"actions": [
						{"type": "reply", "uuid": "0c7f0b52-2a70-4b6e-9c0c-5a5e2b7d8e44", "msg": {"eng": "Copy: thanks @flow.name"}}
					]
				}
			],
			"rule_sets": [
				{
					"uuid": "3a4b3f2c-5b0e-4f0e-a4e4-2d6f3a0d9a11",
					"x": 0, "y": 100,
					"label": "Name",
					"ruleset_type": "wait_message",
					"operand": "@step.value",
					"finished_key": null,
					"config": {},
					"rules": [
						{
							"uuid": "f3c7a1de-8a2f-4b55-9d3e-7b8f6a5c4d55",
							"category": {"eng": "All Responses"},
							"test": {"type": "true"},
							"destination": "6e2a6d9e-94f3-4a0b-9b0e-0d3b3d9b7c22",
							"destination_type": "A"
						}
					]
				}
			]
		},
		{
			"uuid": "22222222-2222-4222-8222-222222222222",
			"name": "Real",
			"spec_version": "13.1.0",
			"language": "eng",
			"type": "messaging",
			"nodes": [
				{
					"uuid": "a58be63b-907d-4a1a-856b-0bb5579d7507",
					"actions": [
						{"uuid": "f01d693b-2af2-49fb-9e38-146eb00937e9", "type": "send_msg", "text": "I am the real one"}
					],
					"exits": [{"uuid": "8d1e2d8e-1ef0-4d5f-a5e1-57c2b5a4c1ea"}]
				}
			]
		}
	]
}`

// the clause "each run's path is a walk in its flow's graph" for one run; returns the first thing that is wrong
func hunt2PathProblem(run flows.Run) string {
	if run.Flow() == nil {
		return "run has no flow"
	}
	path := run.Path()
	for i, step := range path {
		node := run.Flow().GetNode(step.NodeUUID())
		if node == nil {
			return "step " + string(step.UUID()) + " is on node " + string(step.NodeUUID()) + " which is not a node of the run's flow '" + run.Flow().Name() + "'"
		}
		if step.ExitUUID() == "" {
			if i < len(path)-1 {
				return "a step which is not the last lacks an exit"
			}
			continue
		}
		var exit flows.Exit
		for _, e := range node.Exits() {
			if e.UUID() == step.ExitUUID() {
				exit = e
			}
		}
		if exit == nil {
			return "step's exit is not an exit of the step's node"
		}
		if i < len(path)-1 && exit.DestinationUUID() != path[i+1].NodeUUID() {
			return "step's exit does not lead to the next step's node"
		}
	}
	return ""
}

func TestHunt2RunIsBoundToAnotherFlowAfterTheSessionIsStored(t *testing.T) {
	env := envs.NewBuilder().Build()
	eng := engine.NewBuilder().Build()

	newAssets := func() flows.SessionAssets {
		source, err := static.NewSource([]byte(hunt2Assets))
		require.NoError(t, err)
		sa, err := engine.NewSessionAssets(env, source, nil)
		require.NoError(t, err)
		return sa
	}
	sa := newAssets()

	contact := flows.NewEmptyContact(sa, "Bob", "eng", nil)
	contact.AddURN(urns.URN("tel:+12065551212"), nil)
	trigger := triggers.NewBuilder(env, assets.NewFlowReference(hunt2CopyUUID, "Copy"), contact).Manual().Build()

	// sprint 1: the session starts in flow asset 1111.. and waits for a message there
	session, _, err := eng.NewSession(sa, trigger)
	require.NoError(t, err)
	require.Equal(t, flows.SessionStatusWaiting, session.Status())
	require.Len(t, session.Runs(), 1)
	require.Equal(t, "Copy", session.Runs()[0].Flow().Name())
	require.Equal(t, "", hunt2PathProblem(session.Runs()[0]))

	// the host stores the session and reads it back for the next sprint (the same or a fresh assets cache - no difference)
	marshaled, err := jsonx.Marshal(session)
	require.NoError(t, err)

	for _, reread := range []struct {
		label string
		sa    flows.SessionAssets
	}{{"same assets", sa}, {"fresh assets", newAssets()}} {
		session2, err := eng.ReadSession(reread.sa, marshaled, assets.PanicOnMissing)
		require.NoError(t, err, reread.label)
		require.Equal(t, flows.SessionStatusWaiting, session2.Status())

		run := session2.Runs()[0]

		// the stored session is waiting, so its waiting run has to sit on a node of its flow whose router has a wait
		assert.Equal(t, "Copy", run.Flow().Name(), "%s: the waiting run came back bound to another flow", reread.label)
		_, _, err = run.PathLocation()
		assert.NoError(t, err, "%s: the waiting run of a waiting session has no location in its flow", reread.label)

		// sprint 2: the contact answers
		msg := flows.NewMsgIn(flows.MsgUUID("9bf91c2b-ce58-4cef-aacc-281e03f69ab5"), urns.URN("tel:+12065551212"), nil, "Bob", nil)
		_, err = session2.Resume(resumes.NewMsg(nil, nil, msg))
		require.NoError(t, err, reread.label)

		// the engine call returned without error: every run's path has to be a walk in its flow's graph
		assert.Equal(t, "", hunt2PathProblem(run), "%s: after Resume the run's path is not a walk in its flow's graph", reread.label)

		// and the answer of the contact was meant to complete the flow, as it does when the session is not stored in between
		assert.Equal(t, flows.SessionStatusCompleted, session2.Status(), "%s: session status after the contact's answer", reread.label)
	}

	// control: without storing the session in between, the same answer completes the session and the path is a walk
	msg := flows.NewMsgIn(flows.MsgUUID("9bf91c2b-ce58-4cef-aacc-281e03f69ab5"), urns.URN("tel:+12065551212"), nil, "Bob", nil)
	_, err = session.Resume(resumes.NewMsg(nil, nil, msg))
	require.NoError(t, err)
	assert.Equal(t, flows.SessionStatusCompleted, session.Status())
	assert.Equal(t, "", hunt2PathProblem(session.Runs()[0]))
}

// a host source (e.g. a database of flows) which knows every flow by the UUID of its row, whatever its stored definition says
type hunt2HostSource struct {
	*static.StaticSource
	flows map[assets.FlowUUID]assets.Flow
}

func (s *hunt2HostSource) FlowByUUID(uuid assets.FlowUUID) (assets.Flow, error) {
	if f, ok := s.flows[uuid]; ok {
		return f, nil
	}
	return s.StaticSource.FlowByUUID(uuid)
}

func hunt2Definition(uuid assets.FlowUUID, name, thanks string) []byte {
	return []byte(`{
		"uuid": "` + string(uuid) + `", "name": "` + name + `", "spec_version": "13.1.0", "language": "eng", "type": "messaging",
		"nodes": [
			{
				"uuid": "a58be63b-907d-4a1a-856b-0bb5579d7507",
				"actions": [{"uuid": "f01d693b-2af2-49fb-9e38-146eb00937e9", "type": "send_msg", "text": "What is your name?"}],
				"router": {
					"type": "switch", "operand": "@input.text", "wait": {"type": "msg"},
					"categories": [{"uuid": "37d8813f-1402-4ad2-9cc2-e9054a96525b", "name": "All Responses", "exit_uuid": "8d1e2d8e-1ef0-4d5f-a5e1-57c2b5a4c1ea"}],
					"default_category_uuid": "37d8813f-1402-4ad2-9cc2-e9054a96525b", "cases": []
				},
				"exits": [{"uuid": "8d1e2d8e-1ef0-4d5f-a5e1-57c2b5a4c1ea", "destination_uuid": "b7cf0d83-f1c9-411c-96fd-c511a4cfa86d"}]
			},
			{
				"uuid": "b7cf0d83-f1c9-411c-96fd-c511a4cfa86d",
				"actions": [{"uuid": "e97cd6d5-3354-4dbd-85bc-6c1f87849eec", "type": "send_msg", "text": "` + thanks + `"}],
				"exits": [{"uuid": "3dcccbb4-d29c-41dd-a01f-16d814c9ab82"}]
			}
		]
	}`)
}

// Variant with current (13.x) definitions and a host source: flow 1111.. is a copy of flow 2222.. whose stored definition
// still carries the uuid of the original (static.NewFlow(uuid, name, definition) builds exactly that, ReadAsset accepts it).
// The graphs are the same, only the last message differs. A session started in the copy and stored while it waits comes
// back as a session in the original: no error, no event, the contact gets the other flow's message.
func TestHunt2StoredSessionSilentlyContinuesInAnotherFlow(t *testing.T) {
	env := envs.NewBuilder().Build()
	eng := engine.NewBuilder().Build()

	source := &hunt2HostSource{
		StaticSource: static.NewEmptySource(),
		flows: map[assets.FlowUUID]assets.Flow{
			hunt2CopyUUID: static.NewFlow(hunt2CopyUUID, "Copy", hunt2Definition(hunt2RealUUID, "Copy", "Thanks from the copy")),
			hunt2RealUUID: static.NewFlow(hunt2RealUUID, "Real", hunt2Definition(hunt2RealUUID, "Real", "Thanks from the original")),
		},
	}
	sa, err := engine.NewSessionAssets(env, source, nil)
	require.NoError(t, err)

	contact := flows.NewEmptyContact(sa, "Bob", "eng", nil)
	contact.AddURN(urns.URN("tel:+12065551212"), nil)
	trigger := triggers.NewBuilder(env, assets.NewFlowReference(hunt2CopyUUID, "Copy"), contact).Manual().Build()

	session, _, err := eng.NewSession(sa, trigger)
	require.NoError(t, err)
	require.Equal(t, flows.SessionStatusWaiting, session.Status())
	require.Equal(t, "Copy", session.Runs()[0].Flow().Name())

	marshaled, err := jsonx.Marshal(session)
	require.NoError(t, err)
	session, err = eng.ReadSession(sa, marshaled, assets.PanicOnMissing)
	require.NoError(t, err)

	msg := flows.NewMsgIn(flows.MsgUUID("9bf91c2b-ce58-4cef-aacc-281e03f69ab5"), urns.URN("tel:+12065551212"), nil, "Bob", nil)
	sprint, err := session.Resume(resumes.NewMsg(nil, nil, msg))
	require.NoError(t, err)
	require.Equal(t, flows.SessionStatusCompleted, session.Status())

	texts := make([]string, 0)
	for _, e := range sprint.Events() {
		if m, ok := e.(*events.MsgCreatedEvent); ok {
			texts = append(texts, m.Msg.Text())
		}
	}
	assert.Equal(t, "Copy", session.Runs()[0].Flow().Name(), "the run of the stored session is a run of another flow")
	assert.Equal(t, []string{"Thanks from the copy"}, texts, "the stored session ran the definition of another flow")
}
