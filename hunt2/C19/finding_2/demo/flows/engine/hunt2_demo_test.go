package engine_test

import (
	"fmt"
	"strings"
	"testing"

	"github.com/nyaruka/gocommon/jsonx"
	"github.com/nyaruka/gocommon/urns"
	"github.com/nyaruka/goflow/assets"
	"github.com/nyaruka/goflow/assets/static"
	"github.com/nyaruka/goflow/envs"
	"github.com/nyaruka/goflow/flows"
	"github.com/nyaruka/goflow/flows/engine"
	"github.com/nyaruka/goflow/flows/triggers"
	"github.com/nyaruka/goflow/test"
	"github.com/stretchr/testify/assert"
	"github.com/stretchr/testify/require"
)

// two channels which can both send to ext and mailto URNs (no tel channel at all) and a flow which sets the contact's
// preferred channel (%s = the channel reference or null)
const hunt2C19F2Assets = `{
	"channels": [
		{"uuid": "67f1078f-88aa-46f4-a59a-948a5739c03d", "name": "Gateway A", "address": "gwa", "schemes": ["ext", "mailto"], "roles": ["send", "receive"]},
		{"uuid": "77f1078f-88aa-46f4-a59a-948a5739c03d", "name": "Gateway B", "address": "gwb", "schemes": ["ext", "mailto"], "roles": ["send", "receive"]}
	],
	"flows": [
		{
			"uuid": "50c3706e-fedb-42c0-8eab-dda3335714b7",
			"name": "Probe",
			"spec_version": "13.1.0",
			"language": "eng",
			"type": "messaging",
			"nodes": [
				{
					"uuid": "72a1f5df-49f9-45df-94c9-d86f7ea064e5",
					"actions": [
						{"uuid": "ad154980-7bf7-4ab8-8728-545fd6378912", "type": "set_contact_channel", "channel": %s},
						{"uuid": "8eebd020-1af5-431c-b943-aa670fc74da9", "type": "set_run_result", "name": "Probe", "value": "@contact.channel.name", "category": ""}
					],
					"exits": [{"uuid": "d7a36118-0a38-4b35-a7e4-ae89042f0d3c"}]
				}
			]
		}
	]
}`

func hunt2C19F2Run(t *testing.T, channel string, urn urns.URN) flows.Session {
	env := envs.NewBuilder().WithDefaultCountry("RW").WithAllowedLanguages("eng").WithRedactionPolicy(envs.RedactionPolicyURNs).Build()

	source, err := static.NewSource([]byte(fmt.Sprintf(hunt2C19F2Assets, channel)))
	require.NoError(t, err)
	sa, err := engine.NewSessionAssets(env, source, nil)
	require.NoError(t, err)

	require.NoError(t, urn.Validate())

	// the contact is read from JSON as a host does it: its URN has to pass the reader's validation
	contact, err := flows.ReadContact(sa, jsonx.MustMarshal(map[string]any{
		"uuid": "5d76d86b-3bb9-4d5a-b822-c9d86f5d8e4f", "id": 1234, "language": "eng", "status": "active", "created_on": "2020-01-01T12:00:00Z", "urns": []urns.URN{urn},
	}), assets.PanicOnMissing)
	require.NoError(t, err)

	trigger := triggers.NewBuilder(env, assets.NewFlowReference("50c3706e-fedb-42c0-8eab-dda3335714b7", "Probe"), contact).Manual().Build()
	session, _, err := test.NewEngine().NewSession(sa, trigger)
	require.NoError(t, err)
	return session
}

func hunt2C19F2Compare(t *testing.T, sA, sB flows.Session) {
	for _, tpl := range []string{`@results.probe.value`, `@contact.channel.name`, `@contact.channel.address`, `@(json(contact))`} {
		outA, _ := sA.Runs()[0].EvaluateTemplate(tpl, func(flows.Event) {})
		outB, _ := sB.Runs()[0].EvaluateTemplate(tpl, func(flows.Event) {})
		assert.Equal(t, outA, outB, "template %s differs between twins that differ only in the path of their URN", tpl)
	}
}

// Twin contacts under RedactionPolicyURNs, no tel URN and no tel channel anywhere. Twin A's URN is valid as stored but
// not after normalization; twin B's URN differs in the path only.
func TestHunt2C19SetContactChannelAffinityDependsOnHiddenPath(t *testing.T) {
	const toB = `{"uuid": "77f1078f-88aa-46f4-a59a-948a5739c03d", "name": "Gateway B"}`

	// a mailto path of 255 bytes (the limit) which is longer once lower-cased: "Ⱥ" is 2 bytes, "ⱥ" is 3
	longA := urns.URN("mailto:" + strings.Repeat("Ⱥ", 126) + "@bb")
	longB := urns.URN("mailto:" + strings.Repeat("a", 252) + "@bb")
	require.Len(t, longA.Path(), 255)
	require.Len(t, longB.Path(), 255)

	t.Run("set_mailto_at_length_limit", func(t *testing.T) {
		hunt2C19F2Compare(t, hunt2C19F2Run(t, toB, longA), hunt2C19F2Run(t, toB, longB))
	})

	// an ext path that is only white space
	t.Run("set_ext_blank_path", func(t *testing.T) {
		hunt2C19F2Compare(t, hunt2C19F2Run(t, toB, "ext: "), hunt2C19F2Run(t, toB, "ext:x"))
	})

	// the other direction: both twins arrive with an affinity to Gateway B and the flow clears it
	t.Run("clear_ext_blank_path", func(t *testing.T) {
		hunt2C19F2Compare(t,
			hunt2C19F2Run(t, `null`, "ext: ?channel=77f1078f-88aa-46f4-a59a-948a5739c03d"),
			hunt2C19F2Run(t, `null`, "ext:x?channel=77f1078f-88aa-46f4-a59a-948a5739c03d"),
		)
	})
}
