package engine_test

import (
	"fmt"
	"testing"

	"github.com/nyaruka/gocommon/i18n"
	"github.com/nyaruka/gocommon/jsonx"
	"github.com/nyaruka/gocommon/urns"
	"github.com/nyaruka/goflow/assets"
	"github.com/nyaruka/goflow/assets/static"
	"github.com/nyaruka/goflow/envs"
	"github.com/nyaruka/goflow/flows"
	"github.com/nyaruka/goflow/flows/engine"
	"github.com/nyaruka/goflow/flows/triggers"
	"github.com/nyaruka/goflow/test"
	"github.com/stretchr/testify/assert"
	"github.com/stretchr/testify/require"
)

// ONE tel channel (so no choice between tel channels is involved) and one flow which (re)sets the contact's preferred
// channel to it and then waits for a message. %s = extra properties of the channel
const hunt2C19F1Assets = `{
	"channels": [
		{"uuid": "57f1078f-88aa-46f4-a59a-948a5739c03d", "name": "Line", "address": "2020", "schemes": ["tel"], "roles": ["send", "receive"] %s}
	],
	"flows": [
		{
			"uuid": "50c3706e-fedb-42c0-8eab-dda3335714b7",
			"name": "Probe",
			"spec_version": "13.1.0",
			"language": "eng",
			"type": "messaging",
			"nodes": [
				{
					"uuid": "72a1f5df-49f9-45df-94c9-d86f7ea064e5",
					"actions": [
						%s
						{"uuid": "8eebd020-1af5-431c-b943-aa670fc74da9", "type": "set_run_result", "name": "Probe", "value": "@(has_phone(\"0788 123 123\").match)", "category": ""}
					],
					"exits": [{"uuid": "d7a36118-0a38-4b35-a7e4-ae89042f0d3c"}]
				}
			]
		}
	]
}`

const hunt2C19F1SetChannel = `{"uuid": "ad154980-7bf7-4ab8-8728-545fd6378912", "type": "set_contact_channel", "channel": {"uuid": "57f1078f-88aa-46f4-a59a-948a5739c03d", "name": "Line"}},`

func hunt2C19F1Run(t *testing.T, channelExtra, firstAction string, urn urns.URN) flows.Session {
	env := envs.NewBuilder().WithDefaultCountry("RW").WithAllowedLanguages("eng").WithRedactionPolicy(envs.RedactionPolicyURNs).Build()

	source, err := static.NewSource([]byte(fmt.Sprintf(hunt2C19F1Assets, channelExtra, firstAction)))
	require.NoError(t, err)
	sa, err := engine.NewSessionAssets(env, source, nil)
	require.NoError(t, err)

	// the contact is read from JSON as a host does it: its URN has to pass the reader's validation
	contact, err := flows.ReadContact(sa, jsonx.MustMarshal(map[string]any{
		"uuid": "5d76d86b-3bb9-4d5a-b822-c9d86f5d8e4f", "id": 1234, "language": "eng", "status": "active", "created_on": "2020-01-01T12:00:00Z", "urns": []urns.URN{urn},
	}), assets.PanicOnMissing)
	require.NoError(t, err)

	trigger := triggers.NewBuilder(env, assets.NewFlowReference("50c3706e-fedb-42c0-8eab-dda3335714b7", "Probe"), contact).Manual().Build()
	session, _, err := test.NewEngine().NewSession(sa, trigger)
	require.NoError(t, err)
	return session
}

var hunt2C19F1Templates = []string{
	`@results.probe.value`,
	`@(has_phone("0788 123 123").match)`,
	`@contact.channel.name`,
	`@contact.urn`,
	`@(json(contact))`,
}

func hunt2C19F1Compare(t *testing.T, sA, sB flows.Session) {
	for _, tpl := range hunt2C19F1Templates {
		outA, _ := sA.Runs()[0].EvaluateTemplate(tpl, func(flows.Event) {})
		outB, _ := sB.Runs()[0].EvaluateTemplate(tpl, func(flows.Event) {})
		assert.Equal(t, outA, outB, "template %s differs between twins that differ only in the path of their tel URN", tpl)
	}
}

// Twin contacts under RedactionPolicyURNs whose only URN is a tel URN stored without "+" (accepted by every reader:
// the tel scheme allows [a-z0-9]{1,64}). Neither path has a derivable country, so the twins have the same scheme and
// the same (absent) country.
func TestHunt2C19SetContactChannelRewritesHiddenTelPath(t *testing.T) {
	const twinA, twinB = urns.URN("tel:12065551212"), urns.URN("tel:12005551212")

	require.NoError(t, twinA.Validate())
	require.NoError(t, twinB.Validate())
	require.Equal(t, i18n.NilCountry, i18n.DeriveCountryFromTel(twinA.Path()))
	require.Equal(t, i18n.NilCountry, i18n.DeriveCountryFromTel(twinB.Path()))

	// control: without the set_contact_channel action the twins are indistinguishable
	t.Run("control_no_action", func(t *testing.T) {
		hunt2C19F1Compare(t, hunt2C19F1Run(t, ``, ``, twinA), hunt2C19F1Run(t, ``, ``, twinB))
	})

	// the channel has no country: after the action twin A is evaluated in country US, twin B in the environment's RW
	t.Run("channel_without_country", func(t *testing.T) {
		hunt2C19F1Compare(t, hunt2C19F1Run(t, ``, hunt2C19F1SetChannel, twinA), hunt2C19F1Run(t, ``, hunt2C19F1SetChannel, twinB))
	})

	// same thing when the action clears the preferred channel, with a channel for RW only: twin A loses its channel
	// and its preferred URN, twin B keeps both
	t.Run("clear_channel_with_country", func(t *testing.T) {
		clear := `{"uuid": "ad154980-7bf7-4ab8-8728-545fd6378912", "type": "set_contact_channel", "channel": null},`
		hunt2C19F1Compare(t, hunt2C19F1Run(t, `, "country": "RW"`, clear, twinA), hunt2C19F1Run(t, `, "country": "RW"`, clear, twinB))
	})
}
