package translation_test

import (
	"strings"
	"testing"

	"github.com/nyaruka/goflow/flows/definition"
	"github.com/nyaruka/goflow/flows/translation"
	"github.com/nyaruka/goflow/utils/po"
	"github.com/stretchr/testify/assert"
	"github.com/stretchr/testify/require"
)

// a flow with two routers whose "Other" categories have the same UUID (only node, action and exit UUIDs are checked
// for uniqueness when a definition is read)
const hunt2DedupeFlow = `{
	"uuid": "bead76f5-dac4-4c9d-996c-c62b326e8c0a",
	"name": "Greeter",
	"spec_version": "13.6.0",
	"language": "eng",
	"type": "messaging",
	"localization": {},
	"nodes": [
		{
			"uuid": "72a1f5df-49f9-45df-94c9-d86f7ea064e5",
			"actions": [
				{"type": "send_msg", "uuid": "b0000000-0000-4000-8000-000000000001", "text": "Hello"}
			],
			"exits": [{"uuid": "d7a36118-0a38-4b35-a7e4-ae89042f0d3c", "destination_uuid": "72a1f5df-49f9-45df-94c9-d86f7ea064e6"}]
		},
		{
			"uuid": "72a1f5df-49f9-45df-94c9-d86f7ea064e6",
			"router": {
				"type": "switch", "operand": "@input.text", "default_category_uuid": "c0000000-0000-4000-8000-000000000001",
				"categories": [{"uuid": "c0000000-0000-4000-8000-000000000001", "name": "Other", "exit_uuid": "d7a36118-0a38-4b35-a7e4-ae89042f0d3d"}]
			},
			"exits": [{"uuid": "d7a36118-0a38-4b35-a7e4-ae89042f0d3d", "destination_uuid": "72a1f5df-49f9-45df-94c9-d86f7ea064e7"}]
		},
		{
			"uuid": "72a1f5df-49f9-45df-94c9-d86f7ea064e7",
			"router": {
				"type": "switch", "operand": "@input.text", "default_category_uuid": "c0000000-0000-4000-8000-000000000001",
				"categories": [{"uuid": "c0000000-0000-4000-8000-000000000001", "name": "Other", "exit_uuid": "d7a36118-0a38-4b35-a7e4-ae89042f0d3e"}]
			},
			"exits": [{"uuid": "d7a36118-0a38-4b35-a7e4-ae89042f0d3e"}]
		}
	]
}`

// a PO file of the shape ExtractFromFlows writes: a general entry for a text plus an entry with a context for one place
// where that text is translated differently
const hunt2DedupePO = `msgid ""
msgstr ""
"Language: fr\n"
"MIME-Version: 1.0\n"
"Content-Type: text/plain; charset=UTF-8\n"

msgid "Hello"
msgstr "Bonjour"

msgctxt "b0000000-0000-4000-8000-000000000001/text:0"
msgid "Hello"
msgstr "Salut"

msgctxt "c0000000-0000-4000-8000-000000000001/name:0"
msgid "Other"
msgstr "Autre"
`

func TestHunt2ImportDedupesUpdatesByPosition(t *testing.T) {
	flow, err := definition.ReadFlow([]byte(hunt2DedupeFlow), nil)
	require.NoError(t, err)

	p, err := po.ReadPO(strings.NewReader(hunt2DedupePO))
	require.NoError(t, err)

	assert.NotPanics(t, func() {
		err = translation.ImportIntoFlows(p, "fra", nil, flow)
	})
	assert.NoError(t, err)
	assert.Equal(t, []string{"Salut"}, flow.Localization().GetItemTranslation("fra", "b0000000-0000-4000-8000-000000000001", "text"))
	assert.Equal(t, []string{"Autre"}, flow.Localization().GetItemTranslation("fra", "c0000000-0000-4000-8000-000000000001", "name"))
}
