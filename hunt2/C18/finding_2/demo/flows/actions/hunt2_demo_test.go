package actions_test

import (
	"fmt"
	"testing"
	"time"

	"github.com/nyaruka/gocommon/i18n"
	"github.com/nyaruka/gocommon/jsonx"
	"github.com/nyaruka/gocommon/urns"
	"github.com/nyaruka/goflow/assets"
	"github.com/nyaruka/goflow/envs"
	"github.com/nyaruka/goflow/flows"
	"github.com/nyaruka/goflow/flows/events"
	"github.com/nyaruka/goflow/flows/triggers"
	"github.com/nyaruka/goflow/test"
	"github.com/stretchr/testify/assert"
	"github.com/stretchr/testify/require"
)

const hunt2ChgAssets = `{
	"channels": [
		{"uuid": "57f1078f-88aa-46f4-a59a-948a5739c03d", "name": "Voice", "address": "+17036975131", "schemes": ["tel"], "roles": ["send", "receive", "call", "answer"]}
	],
	"flows": [%s]
}`

// An English voice flow whose greeting (text and recording) is translated to French
const hunt2ChgFlow = `{
	"uuid": "bead76f5-dac4-4c9d-996c-c62b326e8c0a",
	"name": "Greeter",
	"spec_version": "13.6.0",
	"language": "eng",
	"type": "voice",
	"localization": {
		"fra": {
			"b0000000-0000-4000-8000-000000000001": {"text": ["Bonjour"], "audio_url": ["http://example.com/bonjour.mp3"]}
		}
	},
	"nodes": [
		{
			"uuid": "72a1f5df-49f9-45df-94c9-d86f7ea064e5",
			"actions": [
				{
					"type": "say_msg",
					"uuid": "b0000000-0000-4000-8000-000000000001",
					"text": "Hello",
					"audio_url": "http://example.com/hello.mp3"
				}
			],
			"exits": [{"uuid": "d7a36118-0a38-4b35-a7e4-ae89042f0d3c"}]
		}
	]
}`

// runs the flow for a contact with the given language and returns what is said
func hunt2Say(t *testing.T, flowJSON string, lang i18n.Language) (string, string) {
	env := envs.NewBuilder().WithAllowedLanguages("eng", "fra").Build()

	sa, err := test.CreateSessionAssets([]byte(fmt.Sprintf(hunt2ChgAssets, flowJSON)), "")
	require.NoError(t, err)

	flow, err := sa.Flows().Get("bead76f5-dac4-4c9d-996c-c62b326e8c0a")
	require.NoError(t, err)

	contact, err := flows.NewContact(sa, "2efa1803-ae4d-4a58-ba54-b523e53e40f3", 123, "Bob", lang, flows.ContactStatusActive, nil,
		time.Date(2020, 1, 1, 12, 45, 30, 0, time.UTC), nil, []urns.URN{"tel:+12065551212"}, nil, nil, nil, assets.PanicOnMissing)
	require.NoError(t, err)

	channel := assets.NewChannelReference("57f1078f-88aa-46f4-a59a-948a5739c03d", "Voice")
	trigger := triggers.NewBuilder(env, flow.Reference(false), contact).Manual().WithCall(channel, "tel:+12065551212").Build()

	_, sp, err := test.NewEngine().NewSession(sa, trigger)
	require.NoError(t, err)

	for _, e := range sp.Events() {
		if m, ok := e.(*events.IVRCreatedEvent); ok {
			require.Len(t, m.Msg.Attachments(), 1)
			return m.Msg.Text(), string(m.Msg.Attachments()[0])
		}
	}
	require.Fail(t, "no ivr_created event")
	return "", ""
}

func TestHunt2ChangeLanguageKeepsSayMsgRecordings(t *testing.T) {
	// as defined, everybody hears the greeting in their own language
	text, audio := hunt2Say(t, hunt2ChgFlow, "eng")
	assert.Equal(t, "Hello", text)
	assert.Equal(t, "audio:http://example.com/hello.mp3", audio)

	text, audio = hunt2Say(t, hunt2ChgFlow, "fra")
	assert.Equal(t, "Bonjour", text)
	assert.Equal(t, "audio:http://example.com/bonjour.mp3", audio)

	// the flow's base language is changed to French, which swaps base text and French translation
	sa, err := test.CreateSessionAssets([]byte(fmt.Sprintf(hunt2ChgAssets, hunt2ChgFlow)), "")
	require.NoError(t, err)
	flow, err := sa.Flows().Get("bead76f5-dac4-4c9d-996c-c62b326e8c0a")
	require.NoError(t, err)

	changed, err := flow.ChangeLanguage("fra")
	require.NoError(t, err)
	changedJSON := string(jsonx.MustMarshal(changed))

	// nothing about anybody's language preference has changed, so everybody should still hear the same
	text, audio = hunt2Say(t, changedJSON, "eng")
	assert.Equal(t, "Hello", text)
	assert.Equal(t, "audio:http://example.com/hello.mp3", audio)

	text, audio = hunt2Say(t, changedJSON, "fra")
	assert.Equal(t, "Bonjour", text)
	assert.Equal(t, "audio:http://example.com/bonjour.mp3", audio, "French contact hears the English recording")

	// and the French recording should still be somewhere in the definition
	assert.Contains(t, changedJSON, "bonjour.mp3", "the French recording is gone from the flow")
}
