package translation_test

import (
	"fmt"
	"strings"
	"testing"

	"github.com/nyaruka/goflow/flows/definition"
	"github.com/nyaruka/goflow/flows/translation"
	"github.com/nyaruka/goflow/utils/po"
	"github.com/stretchr/testify/assert"
	"github.com/stretchr/testify/require"
)

// a flow definition whose localization has a language (or an item of a language) which is present but null: this is
// accepted by the reader, and at run time it is simply a language (item) without translations
const hunt2NullLocFlow = `{
	"uuid": "bead76f5-dac4-4c9d-996c-c62b326e8c0a",
	"name": "Greeter",
	"spec_version": "13.6.0",
	"language": "eng",
	"type": "messaging",
	"localization": %s,
	"nodes": [
		{
			"uuid": "72a1f5df-49f9-45df-94c9-d86f7ea064e5",
			"actions": [
				{"type": "send_msg", "uuid": "b0000000-0000-4000-8000-000000000001", "text": "Hello"}
			],
			"exits": [{"uuid": "d7a36118-0a38-4b35-a7e4-ae89042f0d3c"}]
		}
	]
}`

const hunt2NullLocPO = `msgid ""
msgstr ""
"Language: fr\n"
"MIME-Version: 1.0\n"
"Content-Type: text/plain; charset=UTF-8\n"

msgid "Hello"
msgstr "Bonjour"
`

func TestHunt2ImportIntoNullTranslation(t *testing.T) {
	for _, loc := range []string{
		`{"fra": null}`,
		`{"fra": {"b0000000-0000-4000-8000-000000000001": null}}`,
	} {
		t.Run(loc, func(t *testing.T) {
			flow, err := definition.ReadFlow([]byte(fmt.Sprintf(hunt2NullLocFlow, loc)), nil)
			require.NoError(t, err)

			p, err := po.ReadPO(strings.NewReader(hunt2NullLocPO))
			require.NoError(t, err)

			assert.NotPanics(t, func() {
				err = translation.ImportIntoFlows(p, "fra", nil, flow)
			})
			assert.NoError(t, err)
			assert.Equal(t, []string{"Bonjour"}, flow.Localization().GetItemTranslation("fra", "b0000000-0000-4000-8000-000000000001", "text"))
		})
	}
}
