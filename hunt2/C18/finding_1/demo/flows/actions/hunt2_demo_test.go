package actions_test

import (
	"testing"
	"time"

	"github.com/nyaruka/gocommon/i18n"
	"github.com/nyaruka/gocommon/urns"
	"github.com/nyaruka/goflow/assets"
	"github.com/nyaruka/goflow/envs"
	"github.com/nyaruka/goflow/flows"
	"github.com/nyaruka/goflow/flows/events"
	"github.com/nyaruka/goflow/flows/triggers"
	"github.com/nyaruka/goflow/test"
	"github.com/stretchr/testify/assert"
	"github.com/stretchr/testify/require"
)

// An English voice flow greets the caller with a recording; the spoken backdown text is an optional contact field.
// The recording (audio_url) has a French translation, the backdown expression needs none.
const hunt2SayAssets = `{
	"channels": [
		{"uuid": "57f1078f-88aa-46f4-a59a-948a5739c03d", "name": "Voice", "address": "+17036975131", "schemes": ["tel"], "roles": ["send", "receive", "call", "answer"]}
	],
	"fields": [
		{"uuid": "d66a7823-eada-40e5-9a3a-57239d4690bf", "key": "greeting", "name": "Greeting", "type": "text"}
	],
	"flows": [
		{
			"uuid": "bead76f5-dac4-4c9d-996c-c62b326e8c0a",
			"name": "Greeter",
			"spec_version": "13.5.0",
			"language": "eng",
			"type": "voice",
			"localization": {
				"fra": {
					"b0000000-0000-4000-8000-000000000001": {"audio_url": ["http://example.com/bonjour.mp3"]}
				}
			},
			"nodes": [
				{
					"uuid": "72a1f5df-49f9-45df-94c9-d86f7ea064e5",
					"actions": [
						{
							"type": "say_msg",
							"uuid": "b0000000-0000-4000-8000-000000000001",
							"text": "@fields.greeting",
							"audio_url": "http://example.com/hello.mp3"
						}
					],
					"exits": [{"uuid": "d7a36118-0a38-4b35-a7e4-ae89042f0d3c"}]
				}
			]
		}
	]
}`

func TestHunt2LocaleOfTextlessSayMsg(t *testing.T) {
	env := envs.NewBuilder().WithAllowedLanguages("eng", "fra").Build()

	sa, err := test.CreateSessionAssets([]byte(hunt2SayAssets), "")
	require.NoError(t, err)

	flow, err := sa.Flows().Get("bead76f5-dac4-4c9d-996c-c62b326e8c0a")
	require.NoError(t, err)

	// French speaking contact who has no value for the greeting field
	contact, err := flows.NewContact(sa, "2efa1803-ae4d-4a58-ba54-b523e53e40f3", 123, "Bob", "fra", flows.ContactStatusActive, nil,
		time.Date(2020, 1, 1, 12, 45, 30, 0, time.UTC), nil, []urns.URN{"tel:+12065551212"}, nil, nil, nil, assets.PanicOnMissing)
	require.NoError(t, err)

	channel := assets.NewChannelReference("57f1078f-88aa-46f4-a59a-948a5739c03d", "Voice")
	trigger := triggers.NewBuilder(env, flow.Reference(false), contact).Manual().WithCall(channel, "tel:+12065551212").Build()

	_, sp, err := test.NewEngine().NewSession(sa, trigger)
	require.NoError(t, err)

	var msg *flows.MsgOut
	for _, e := range sp.Events() {
		if m, ok := e.(*events.IVRCreatedEvent); ok {
			msg = m.Msg
		}
	}
	require.NotNil(t, msg)

	// the created message has no text, and its only content is the French recording..
	assert.Equal(t, "", msg.Text())
	require.Len(t, msg.Attachments(), 1)
	assert.Equal(t, "audio:http://example.com/bonjour.mp3", string(msg.Attachments()[0]))

	// ..so its locale should name the language of the attachment
	lang, _ := msg.Locale().Split()
	assert.Equal(t, i18n.Language("fra"), lang)
}
