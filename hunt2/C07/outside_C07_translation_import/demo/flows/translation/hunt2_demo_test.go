package translation_test

import (
	"strings"
	"testing"

	"github.com/nyaruka/goflow/flows"
	"github.com/nyaruka/goflow/flows/definition"
	"github.com/nyaruka/goflow/flows/translation"
	"github.com/stretchr/testify/require"
)

const flowTpl = `{
  "uuid": "FLOWUUID", "name": "NAME", "spec_version": "13.1.0", "language": "eng", "type": "messaging",
  "nodes": [{
    "uuid": "a58be63b-907d-4a1a-856b-0bb5579d7507",
    "actions": [
      {"uuid": "e97cd6d5-3354-4dbd-85bc-6c1f87849eec", "type": "send_msg", "text": "Hello"},
      {"uuid": "0a8467eb-911a-41db-8101-ccf415c48e6a", "type": "send_msg", "text": "Bye"}
    ],
    "exits": [{"uuid": "0dbd5d3e-8bd0-4c5b-8c2a-2a7b0a3b4c5d"}]
  }]
}`

func TestHunt2ImportIntoFlowsSharingItemUUIDs(t *testing.T) {
	read := func(uuid, name string) flows.Flow {
		f, err := definition.ReadFlow([]byte(strings.NewReplacer("FLOWUUID", uuid, "NAME", name).Replace(flowTpl)), nil)
		require.NoError(t, err)
		return f
	}
	f1 := read("19cad1f2-9110-4271-98d4-1b968bf19410", "One")
	f2 := read("8f3fa1c0-1f6a-4f0a-9d3b-2f1f5e0f3a77", "Two")

	p, err := translation.ExtractFromFlows("", "spa", nil, f1, f2)
	require.NoError(t, err)
	for _, e := range p.Entries {
		e.MsgStr = "ES " + e.MsgID
	}
	err = translation.ImportIntoFlows(p, "spa", nil, f1, f2)
	require.NoError(t, err)
	_ = 0
	require.Equal(t, []string{"ES Hello"}, f1.Localization().GetItemTranslation("spa", "e97cd6d5-3354-4dbd-85bc-6c1f87849eec", "text"))
	require.Equal(t, []string{"ES Hello"}, f2.Localization().GetItemTranslation("spa", "e97cd6d5-3354-4dbd-85bc-6c1f87849eec", "text"))
	require.Equal(t, []string{"ES Bye"}, f1.Localization().GetItemTranslation("spa", "0a8467eb-911a-41db-8101-ccf415c48e6a", "text"))
	t.Log(f1.Localization().GetItemTranslation("spa", "e97cd6d5-3354-4dbd-85bc-6c1f87849eec", "text"), f2.Localization().GetItemTranslation("spa", "e97cd6d5-3354-4dbd-85bc-6c1f87849eec", "text"))
}
