package excellent_test

import (
	"testing"
	"time"

	"github.com/nyaruka/goflow/envs"
	"github.com/nyaruka/goflow/excellent"
	"github.com/nyaruka/goflow/excellent/types"
	"github.com/stretchr/testify/assert"
	"github.com/stretchr/testify/require"
)

// Fix fea80c6 / fbf7aba made the TEXT of a date ("2022-09-11") convert to a datetime on that date also in a zone where
// that day has no midnight (DST starts at 00:00: America/Santiago every September, America/Havana every March,
// America/Sao_Paulo until 2018, ...). The date VALUE itself still converts with a plain time.Date and lands on the day
// before: a date and its own canonical text are different datetimes, and date -> datetime -> date loses a day.
func TestHunt2DateValueAndItsTextAreDifferentDatetimes(t *testing.T) {
	ctx := types.NewXObject(map[string]types.XValue{})
	eval := excellent.NewEvaluator()

	for _, tc := range []struct {
		tz    string
		parts string
	}{
		{"America/Santiago", "2022, 9, 11"},
		{"America/Havana", "2023, 3, 12"},
		{"America/Sao_Paulo", "2000, 10, 8"},
	} {
		tz, err := time.LoadLocation(tc.tz)
		require.NoError(t, err)
		env := envs.NewBuilder().WithTimezone(tz).Build()

		val, _ := eval.Expression(env, ctx, `date_from_parts(`+tc.parts+`)`)
		d := val.(*types.XDate)

		text, _ := types.ToXText(env, d)
		viaText, xerr := types.ToXDateTime(env, text)
		require.Nil(t, xerr)
		direct, xerr := types.ToXDateTime(env, d)
		require.Nil(t, xerr)

		assert.True(t, viaText.Equals(direct), "%s: date %s as a datetime is %s, its text %q as a datetime is %s", tc.tz, d.String(), direct.Render(), text.Native(), viaText.Render())

		back, xerr := types.ToXDate(env, direct)
		require.Nil(t, xerr)
		assert.True(t, types.Equals(d, back), "%s: date(datetime(%s)) is %s", tc.tz, d.Render(), back.Render())

		// what a flow sees: '=' between the value and the same value carried as text (e.g. in a result)
		direct2, _ := eval.Expression(env, ctx, `datetime(date_from_parts(`+tc.parts+`)) = datetime("`+text.Native()+`")`)
		assert.Equal(t, "true", types.Render(direct2), "%s: datetime(d) = datetime(text(d))", tc.tz)

		// and replace_time lands a whole day early
		replaced, _ := eval.Expression(env, ctx, `format_date(replace_time(date_from_parts(`+tc.parts+`), time("12:00")), "YYYY-MM-DD")`)
		assert.Equal(t, d.Render(), types.Render(replaced), "%s: replace_time(%s, 12:00)", tc.tz, d.Render())
	}
}
