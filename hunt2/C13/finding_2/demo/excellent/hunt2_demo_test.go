package excellent_test

import (
	"testing"

	"github.com/nyaruka/goflow/envs"
	"github.com/nyaruka/goflow/excellent"
	"github.com/nyaruka/goflow/excellent/types"
	"github.com/stretchr/testify/assert"
	"github.com/stretchr/testify/require"
)

// date_from_parts checks the month but not the day, so it makes date values such as XDate(2019, 2, 30) whose fields are
// not a calendar date. Rendering normalises the fields (2019-03-02), so the text - ISO and every environment format -
// parses back to a date which is NOT equal to the rendered value, while '=' (which compares renderings) says that the two
// are the same.
func TestHunt2DateFromPartsDayRoundTrip(t *testing.T) {
	ctx := types.NewXObject(map[string]types.XValue{})
	eval := excellent.NewEvaluator()

	for _, df := range []envs.DateFormat{envs.DateFormatYearMonthDay, envs.DateFormatDayMonthYear, envs.DateFormatMonthDayYear} {
		env := envs.NewBuilder().WithDateFormat(df).Build()

		for _, expr := range []string{`date_from_parts(2019, 2, 30)`, `date_from_parts(2019, 4, 31)`, `date_from_parts(2019, 3, 0)`, `date_from_parts(2019, 12, 32)`} {
			val, _ := eval.Expression(env, ctx, expr)
			d, isDate := val.(*types.XDate)
			if !isDate {
				continue // an error would be fine: there is no such date
			}

			// ISO form
			text, xerr := types.ToXText(env, d)
			require.Nil(t, xerr)
			back, xerr := types.ToXDate(env, text)
			require.Nil(t, xerr)
			assert.True(t, types.Equals(d, back), "%s [%s]: %s renders as %s which parses back to %s (Compare = %d)", expr, df, d.String(), text.Native(), back.String(), d.Compare(back))

			// environment format
			formatted := d.Format(env)
			back, xerr = types.ToXDate(env, types.NewXText(formatted))
			require.Nil(t, xerr)
			assert.True(t, types.Equals(d, back), "%s [%s]: %s formats as %s which parses back to %s", expr, df, d.String(), formatted, back.String())

			// '=' compares the renderings and says the two values are the same, contains() (types.Equals) says they are not
			eq, _ := eval.Expression(env, ctx, expr+` = date("`+text.Native()+`")`)
			in, _ := eval.Expression(env, ctx, `contains(array(date("`+text.Native()+`")), `+expr+`)`)
			assert.Equal(t, types.Render(eq), types.Render(in), "%s [%s]: '=' with its own rendering as a date, and contains(array(<that date>), value)", expr, df)
		}
	}
}
