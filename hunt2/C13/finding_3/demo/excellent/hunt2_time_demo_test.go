package excellent_test

import (
	"testing"

	"github.com/nyaruka/goflow/envs"
	"github.com/nyaruka/goflow/excellent"
	"github.com/nyaruka/goflow/excellent/types"
	"github.com/stretchr/testify/assert"
	"github.com/stretchr/testify/require"
)

// time() accepts hour 24 with minutes, minute 60 and second 60 (envs.parseTime tests `> 24`, `> 60`, `> 60`) and keeps
// the fields as they are, so it makes time values such as XTime(12, 60, 0, 0). Rendering normalises them (13:00:00.000000),
// so the text - ISO and every environment time format - parses back to a time which is NOT equal to the rendered value.
func TestHunt2TimeFieldsOutOfRangeRoundTrip(t *testing.T) {
	ctx := types.NewXObject(map[string]types.XValue{})
	eval := excellent.NewEvaluator()

	for _, tf := range []envs.TimeFormat{envs.TimeFormatHourMinute, envs.TimeFormatHourMinuteSecond, envs.TimeFormatHourMinuteAmPm, envs.TimeFormatHourMinuteSecondAmPm} {
		env := envs.NewBuilder().WithTimeFormat(tf).Build()

		for _, input := range []string{`12:60`, `24:30`, `23:59:60`, `10:60:60`, `9:60 pm`} {
			val, _ := eval.Expression(env, ctx, `time("`+input+`")`)
			tm, isTime := val.(*types.XTime)
			if !isTime {
				continue // an error would be fine: there is no such time
			}

			// ISO form
			text, xerr := types.ToXText(env, tm)
			require.Nil(t, xerr)
			back, xerr := types.ToXTime(env, text)
			require.Nil(t, xerr)
			assert.True(t, types.Equals(tm, back), "time(%q) [%s]: %s renders as %s which parses back to %s (Compare = %d)", input, tf, tm.String(), text.Native(), back.String(), tm.Compare(back))

			// environment format
			formatted := tm.Format(env)
			back, xerr = types.ToXTime(env, types.NewXText(formatted))
			require.Nil(t, xerr)
			assert.Equal(t, formatted, back.Format(env)) // the text itself is stable ...
			if tf == envs.TimeFormatHourMinuteSecond || tf == envs.TimeFormatHourMinuteSecondAmPm || tm.Native().Second == 0 {
				// ... but, where the format drops nothing, the value is not the one that was formatted
				assert.True(t, types.Equals(tm, back), "time(%q) [%s]: %s formats as %s which parses back to %s", input, tf, tm.String(), formatted, back.String())
			}
		}
	}

	// the value orders AFTER 23:00 but is written as half past midnight
	env := envs.NewBuilder().Build()
	late, _ := eval.Expression(env, ctx, `time("24:30")`)
	eleven, _ := eval.Expression(env, ctx, `time("23:00")`)
	if lt, ok := late.(*types.XTime); ok {
		rendered, _ := types.ToXTime(env, types.NewXText(lt.Render()))
		assert.Equal(t, lt.Compare(eleven), rendered.Compare(eleven), "time(\"24:30\") compares with 23:00 differently from its own rendering %s", lt.Render())
	}
}
