package engine_test

import (
	"testing"

	"github.com/nyaruka/gocommon/jsonx"
	"github.com/nyaruka/gocommon/urns"
	"github.com/nyaruka/goflow/assets"
	"github.com/nyaruka/goflow/assets/static"
	"github.com/nyaruka/goflow/envs"
	"github.com/nyaruka/goflow/excellent/types"
	"github.com/nyaruka/goflow/flows"
	"github.com/nyaruka/goflow/flows/engine"
	"github.com/nyaruka/goflow/flows/resumes"
	"github.com/nyaruka/goflow/flows/triggers"
	"github.com/stretchr/testify/assert"
	"github.com/stretchr/testify/require"
)

// A flow that asks a question, saves the reply to the TEXT field "nickname", and waits again.
const hunt2OffsetAssets = `{
	"fields": [{"uuid": "f1b5aea6-6586-41c7-9020-1a6326cc6565", "key": "nickname", "name": "Nickname", "type": "text"}],
	"flows": [{
		"uuid": "7c3db26f-e12a-48af-9673-e2feefdf8516", "name": "Nickname", "spec_version": "13.1.0", "language": "eng", "type": "messaging",
		"nodes": [
			{
				"uuid": "a58be63b-907d-4a1a-856b-0bb5579d7507",
				"router": {
					"type": "switch", "wait": {"type": "msg"}, "operand": "@input.text", "result_name": "Reply",
					"categories": [{"uuid": "37d8813f-1402-4ad2-9cc2-e9054a96525b", "name": "All", "exit_uuid": "fc2fcd23-7c4a-44bd-a8c6-6c88e6ed09f8"}],
					"default_category_uuid": "37d8813f-1402-4ad2-9cc2-e9054a96525b", "cases": []
				},
				"exits": [{"uuid": "fc2fcd23-7c4a-44bd-a8c6-6c88e6ed09f8", "destination_uuid": "b6c12ba8-c6d9-45d3-ab13-d6e9b6d08a5a"}]
			},
			{
				"uuid": "b6c12ba8-c6d9-45d3-ab13-d6e9b6d08a5a",
				"actions": [{"uuid": "d2a4052a-3fa9-4608-ab3e-5b9631440447", "type": "set_contact_field", "field": {"key": "nickname", "name": "Nickname"}, "value": "@input.text"}],
				"exits": [{"uuid": "43accf99-4940-44f7-926b-a8b35d9403d6", "destination_uuid": "c0781400-737f-4940-9a6c-1ec1c3df0325"}]
			},
			{
				"uuid": "c0781400-737f-4940-9a6c-1ec1c3df0325",
				"router": {
					"type": "switch", "wait": {"type": "msg"}, "operand": "@input.text", "result_name": "Reply2",
					"categories": [{"uuid": "0680b01f-ba0b-48f4-a688-d2f963130126", "name": "All", "exit_uuid": "e5f4a8b5-33b4-4b2c-9f5c-2c8a2c2f3a11"}],
					"default_category_uuid": "0680b01f-ba0b-48f4-a688-d2f963130126", "cases": []
				},
				"exits": [{"uuid": "e5f4a8b5-33b4-4b2c-9f5c-2c8a2c2f3a11"}]
			}
		]
	}]
}`

// The ISO text "2020-01-01T00:00:00+24:60" is accepted by datetime() (time.Parse allows an offset of 24 hours and of
// 60 minutes "as some people do write" them), and makes a datetime whose zone offset is +25:00. The ISO rendering of
// that value, "2020-01-01T00:00:00.000000+25:00", is not accepted as an ISO datetime by the same reader: datetime() of
// it silently gives another instant, and the JSON reader of XDateTime rejects it.
func TestHunt2DatetimeOffsetBeyond24hRoundTrip(t *testing.T) {
	env := envs.NewBuilder().Build()

	d, xerr := types.ToXDateTime(env, types.NewXText("2020-01-01T00:00:00+24:60"))
	require.Nil(t, xerr)

	rendered, _ := types.ToXText(env, d)
	back, xerr := types.ToXDateTime(env, rendered)
	if assert.Nil(t, xerr, "rendered %s is not read back", rendered.Native()) {
		assert.True(t, d.Equals(back), "%s rendered as %s reads back as %s: %s away", d.String(), rendered.Native(), back.Render(), back.Native().Sub(d.Native()))
	}

	marshaled, err := jsonx.Marshal(d)
	require.NoError(t, err)
	assert.NoError(t, jsonx.Unmarshal(marshaled, &types.XDateTime{}), "JSON form %s written by XDateTime.MarshalJSON is rejected by XDateTime.UnmarshalJSON", string(marshaled))
}

// The same through the engine: a contact replies with that text, the flow saves the reply to a TEXT contact field
// (every field value keeps the datetime its text parses to). The contact and the session which the engine then writes
// can no longer be read by the engine: the waiting session can never be resumed.
func TestHunt2DatetimeOffsetBeyond24hMakesSessionUnreadable(t *testing.T) {
	env := envs.NewBuilder().Build()
	source, err := static.NewSource([]byte(hunt2OffsetAssets))
	require.NoError(t, err)
	sa, err := engine.NewSessionAssets(env, source, nil)
	require.NoError(t, err)
	eng := engine.NewBuilder().Build()

	flow, err := sa.Flows().Get("7c3db26f-e12a-48af-9673-e2feefdf8516")
	require.NoError(t, err)

	contact := flows.NewEmptyContact(sa, "Bob", "eng", nil)
	contact.AddURN(urns.URN("tel:+12065551212"), nil)

	session, _, err := eng.NewSession(sa, triggers.NewBuilder(env, flow.Reference(false), contact).Manual().Build())
	require.NoError(t, err)
	require.Equal(t, flows.SessionStatusWaiting, session.Status())

	msg := flows.NewMsgIn("6d5ab6a5-4d1e-4a3f-9a2c-2b7c0e8a7f11", urns.URN("tel:+12065551212"), nil, "2020-01-01T00:00+24:60", nil)
	_, err = session.Resume(resumes.NewMsg(env, nil, msg))
	require.NoError(t, err)
	require.Equal(t, flows.SessionStatusWaiting, session.Status())

	value := session.Contact().Fields().Get(sa.Fields().Get("nickname"))
	require.NotNil(t, value)
	require.NotNil(t, value.Datetime)

	// what the engine wrote can be read again
	contactJSON, err := jsonx.Marshal(session.Contact())
	require.NoError(t, err)
	_, err = flows.ReadContact(sa, contactJSON, assets.PanicOnMissing)
	assert.NoError(t, err, "contact written by the engine can't be read")

	sessionJSON, err := jsonx.Marshal(session)
	require.NoError(t, err)
	_, err = eng.ReadSession(sa, sessionJSON, assets.PanicOnMissing)
	assert.NoError(t, err, "session written by the engine can't be read, the contact can never resume")
}
