package engine_test

import (
	"testing"

	"github.com/nyaruka/gocommon/jsonx"
	"github.com/nyaruka/gocommon/urns"
	"github.com/nyaruka/gocommon/uuids"
	"github.com/nyaruka/goflow/envs"
	"github.com/nyaruka/goflow/flows"
	"github.com/nyaruka/goflow/flows/events"
	"github.com/nyaruka/goflow/flows/modifiers"
	"github.com/nyaruka/goflow/flows/resumes"
	"github.com/nyaruka/goflow/test"
	"github.com/stretchr/testify/assert"
	"github.com/stretchr/testify/require"
)

// a flow that asks for a phone number, adds what the contact answers as a tel URN, and asks again
const hunt2TelAssets = `{
	"channels": [
		{"uuid": "57f1078f-88aa-46f4-a59a-948a5739c03d", "name": "Android", "address": "+17036975131", "schemes": ["tel"], "roles": ["send", "receive"]}
	],
	"flows": [
		{
			"uuid": "50c3706e-fedb-42c0-8eab-dda3335714b7", "name": "Register phone", "spec_version": "13.1.0", "language": "eng", "type": "messaging",
			"nodes": [
				{
					"uuid": "3dcccbb4-d29c-41dd-a01f-16d814c9ab82",
					"router": {
						"type": "switch", "wait": {"type": "msg"}, "operand": "@input.text", "result_name": "Number",
						"categories": [{"uuid": "37d8813f-1402-4ad2-9cc2-e9054a96525b", "name": "All Responses", "exit_uuid": "100f2d68-2481-4137-a0a3-177620ba3c5f"}],
						"default_category_uuid": "37d8813f-1402-4ad2-9cc2-e9054a96525b", "cases": []
					},
					"exits": [{"uuid": "100f2d68-2481-4137-a0a3-177620ba3c5f", "destination_uuid": "72a1f5df-49f9-45df-94c9-d86f7ea064e5"}]
				},
				{
					"uuid": "72a1f5df-49f9-45df-94c9-d86f7ea064e5",
					"actions": [
						{"uuid": "ad154980-7bf7-4ab8-8728-545fd6378912", "type": "add_contact_urn", "scheme": "tel", "path": "@input.text"}
					],
					"exits": [{"uuid": "d7a36118-0a38-4b35-a7e4-ae89042f0d3c", "destination_uuid": "3dcccbb4-d29c-41dd-a01f-16d814c9ab82"}]
				}
			]
		}
	]
}`

func hunt2URNEvents(sprint flows.Sprint) [][]urns.URN {
	var out [][]urns.URN
	for _, e := range sprint.Events() {
		if ce, ok := e.(*events.ContactURNsChangedEvent); ok {
			out = append(out, ce.URNs)
		}
	}
	return out
}

// C03: "A modifier reports 'modified' and emits a change event if and only if the contact actually changed, so applying
// the same modifier twice changes and reports nothing the second time."
//
// The contact answers the same question twice with the same phone number, written the way many people write it: country code, the trunk zero in brackets, then the national number with its own leading zero.
// The second add_contact_urn (same action, same text) adds the number again: the contact ends up with the same URN twice
// and a second contact_urns_changed is emitted. Every further answer adds another copy.
func TestHunt2C03TelURNAppendedOnEveryApplication(t *testing.T) {
	const answer = "+234 (0) 0803 123 4567"

	_, session, _, err := test.NewSessionBuilder().
		WithAssetsJSON([]byte(hunt2TelAssets)).
		WithContact("5d76d86b-3bb9-4d5a-b822-c9d86f5d8e4f", 123, "Bob", "eng", "tel:+12065551212").
		Build()
	require.NoError(t, err)
	require.Equal(t, flows.SessionStatusWaiting, session.Status())

	resume := func() flows.Sprint {
		msg := flows.NewMsgIn(flows.MsgUUID(uuids.NewV4()), urns.URN("tel:+12065551212"), nil, answer, nil)
		sprint, err := session.Resume(resumes.NewMsg(nil, nil, msg))
		require.NoError(t, err)
		require.Equal(t, flows.SessionStatusWaiting, session.Status())
		return sprint
	}

	// first answer: the number is new, so it is added and announced once
	sprint1 := resume()
	require.Len(t, hunt2URNEvents(sprint1), 1)
	after1 := session.Contact().URNs().RawURNs()
	t.Logf("after 1st answer: %v", after1)
	require.Len(t, after1, 2)

	// second, identical answer: the contact already has that URN, so nothing may change and nothing may be announced
	before2 := string(jsonx.MustMarshal(session.Contact().URNs().RawURNs()))
	sprint2 := resume()
	after2 := session.Contact().URNs().RawURNs()
	t.Logf("after 2nd answer: %v", after2)

	assert.Empty(t, hunt2URNEvents(sprint2), "same add_contact_urn applied a second time announced a URN change")
	assert.Equal(t, before2, string(jsonx.MustMarshal(after2)), "same add_contact_urn applied a second time changed the contact")

	seen := map[urns.URN]bool{}
	for _, u := range after2 {
		assert.False(t, seen[u], "contact holds URN %s more than once", u)
		seen[u] = true
	}
}

// the same thing with the modifier applied directly, as a host does for a contact update, followed by the reverse
// modification which does not find the URN that was just added
func TestHunt2C03TelURNModifierTwice(t *testing.T) {
	sa, err := test.CreateSessionAssets([]byte(hunt2TelAssets), "")
	require.NoError(t, err)

	env := envs.NewBuilder().Build()
	eng := test.NewEngine()

	contact, err := flows.ReadContact(sa, []byte(`{"uuid": "5d76d86b-3bb9-4d5a-b822-c9d86f5d8e4f", "name": "Bob", "status": "active", "created_on": "2020-01-01T00:00:00Z", "urns": ["tel:+12065551212"]}`), nil)
	require.NoError(t, err)

	for _, raw := range []urns.URN{"tel:+234 (0) 0803 123 4567", "tel:+254 (0)0722 123456", "tel:+91 00 98765 43210", "tel:12065550000X12", "tel:4400858870981"} {
		c := contact.Clone()
		mod := modifiers.NewURNs([]urns.URN{raw}, modifiers.URNsAppend)

		log1 := test.NewEventLog()
		modified1 := modifiers.Apply(eng, env, sa, c, mod, log1.Log)
		require.True(t, modified1)
		json1 := string(jsonx.MustMarshal(c))

		log2 := test.NewEventLog()
		modified2 := modifiers.Apply(eng, env, sa, c, mod, log2.Log)
		json2 := string(jsonx.MustMarshal(c))

		assert.False(t, modified2, "%s: second application reported modified", raw)
		assert.Empty(t, log2.Events, "%s: second application emitted events", raw)
		assert.Equal(t, json1, json2, "%s: second application changed the contact", raw)
		t.Logf("%s: URNs after two applications: %v", raw, c.URNs().RawURNs())

		// .. and removing what was added is a no-op that leaves it there
		c = contact.Clone()
		modifiers.Apply(eng, env, sa, c, mod, func(flows.Event) {})
		added := c.URNs().RawURNs()[1]
		log3 := test.NewEventLog()
		modified3 := modifiers.Apply(eng, env, sa, c, modifiers.NewURNs([]urns.URN{added}, modifiers.URNsRemove), log3.Log)
		assert.True(t, modified3, "%s: removing the URN %s the contact has did nothing", raw, added)
	}
}

// second site, same cause: set_contact_channel / the channel modifier rebuilds every tel URN (ContactURN.SetChannel ->
// urns.NewFromParts), which normalizes it once more. A stored number which is still more than one step away from its
// final form changes again on every application of the same modifier, and two different stored forms of one number
// end up as the same URN twice.
func TestHunt2C03ChannelModifierChangesAgainAndAgain(t *testing.T) {
	sa, err := test.CreateSessionAssets([]byte(hunt2TelAssets), "")
	require.NoError(t, err)

	env := envs.NewBuilder().Build()
	eng := test.NewEngine()
	android := sa.Channels().Get("57f1078f-88aa-46f4-a59a-948a5739c03d")
	require.NotNil(t, android)

	// what the URNs modifier makes of the answer "+43 000 5086055"
	c0, err := flows.ReadContact(sa, []byte(`{"uuid": "5d76d86b-3bb9-4d5a-b822-c9d86f5d8e4f", "name": "Bob", "status": "active", "created_on": "2020-01-01T00:00:00Z"}`), nil)
	require.NoError(t, err)
	require.True(t, modifiers.Apply(eng, env, sa, c0, modifiers.NewURNs([]urns.URN{"tel:+43 000 5086055"}, modifiers.URNsAppend), func(flows.Event) {}))
	t.Logf("stored: %v", c0.URNs().RawURNs())

	// the contact as a host persists and reads it
	contact, err := flows.ReadContact(sa, jsonx.MustMarshal(c0), nil)
	require.NoError(t, err)

	mod := modifiers.NewChannel(android)

	log1 := test.NewEventLog()
	require.True(t, modifiers.Apply(eng, env, sa, contact, mod, log1.Log))
	json1 := string(jsonx.MustMarshal(contact))
	t.Logf("after 1st set channel: %v", contact.URNs().RawURNs())

	log2 := test.NewEventLog()
	modified2 := modifiers.Apply(eng, env, sa, contact, mod, log2.Log)
	t.Logf("after 2nd set channel: %v", contact.URNs().RawURNs())

	assert.False(t, modified2, "second application of the same channel modifier reported modified")
	assert.Empty(t, log2.Events, "second application of the same channel modifier emitted events")
	assert.Equal(t, json1, string(jsonx.MustMarshal(contact)), "second application of the same channel modifier changed the contact")
}
