package engine_test

// C05 second wave, finding 1: one evaluation of one send_msg text takes the process down with Go's unrecoverable
// "fatal error: out of memory" - the engine call (NewSession) never returns, no failure event, no Go error. The length
// limit on evaluated text (MaxTemplateChars) is applied only after the whole text has been built, the caps added by the
// first wave (repeat: 100,000 characters, anonymous functions: 100,000 calls) bound neither replace(), join(), the &
// operator nor the total built by foreach().
//
// Because the failure is a fatal error and not a panic, each engine call is made in a child process whose address
// space is capped at 4 GiB; the parent fails on the child's exit status and shows the first lines it printed.

import (
	"encoding/json"
	"fmt"
	"os"
	"os/exec"
	"strings"
	"syscall"
	"testing"
	"time"

	"github.com/nyaruka/gocommon/urns"
	"github.com/nyaruka/gocommon/uuids"
	"github.com/nyaruka/goflow/assets"
	"github.com/nyaruka/goflow/assets/static"
	"github.com/nyaruka/goflow/envs"
	"github.com/nyaruka/goflow/flows"
	"github.com/nyaruka/goflow/flows/engine"
	"github.com/nyaruka/goflow/flows/triggers"
)

func hunt2C05F1Templates() map[string]string {
	// f(f(f(...f("a")...))) with f = (x) => x & x : 34 calls (limit is 100,000), depth 1 (limit is 100), 2^34 characters
	doubling := `"a"`
	for i := 0; i < 34; i++ {
		doubling = "f(" + doubling + ")"
	}

	return map[string]string{
		// 100,000 x 100,000 characters, both arguments within repeat's own limit
		"replace": `@(replace(repeat("a", 100000), "a", repeat("b", 100000)))`,
		// an empty needle matches between all characters
		"replace-empty-needle": `@(replace(repeat("a", 100000), "", repeat("b", 100000)))`,
		// 50,000 separators of 100,000 characters
		"join": `@(join(split(repeat("a ", 50000), " "), repeat("b", 100000)))`,
		// 50,000 calls (limit 100,000) each keeping a text of 100,000 characters
		"foreach": `@(count(foreach(split(repeat("a ", 50000), " "), (x) => repeat("b", 100000))))`,
		// plain concatenation, doubled by an anonymous function
		"concatenate": `@(((f) => ` + doubling + `)((x) => x & x))`,
	}
}

func hunt2C05F1Start(t *testing.T, text string) (flows.Session, flows.Sprint) {
	textJSON, _ := json.Marshal(text)
	assetsJSON := fmt.Sprintf(`{"flows": [{
		"uuid": "11111111-1111-4111-8111-111111111111", "name": "One message", "spec_version": "13.6.0", "language": "eng", "type": "messaging",
		"nodes": [{
			"uuid": "a1111111-1111-4111-8111-111111111111",
			"actions": [{"type": "send_msg", "uuid": "b1111111-1111-4111-8111-111111111111", "text": %s}],
			"exits": [{"uuid": "e1111111-1111-4111-8111-111111111111"}]
		}]
	}]}`, string(textJSON))

	source, err := static.NewSource([]byte(assetsJSON))
	if err != nil {
		t.Fatal(err)
	}
	sa, err := engine.NewSessionAssets(envs.NewBuilder().Build(), source, nil)
	if err != nil {
		t.Fatal(err)
	}
	// the definition is read without complaint
	if _, err := sa.Flows().Get("11111111-1111-4111-8111-111111111111"); err != nil {
		t.Fatalf("flow definition rejected: %s", err)
	}
	contact, err := flows.NewContact(sa, flows.ContactUUID(uuids.NewV4()), 1, "Bob", "eng", flows.ContactStatusActive, nil,
		time.Date(2020, 1, 1, 0, 0, 0, 0, time.UTC), nil, []urns.URN{"tel:+12065551212"}, nil, nil, nil, assets.PanicOnMissing)
	if err != nil {
		t.Fatal(err)
	}
	flow := assets.NewFlowReference("11111111-1111-4111-8111-111111111111", "One message")
	trigger := triggers.NewBuilder(envs.NewBuilder().Build(), flow, contact).Manual().Build()

	session, sprint, err := engine.NewBuilder().Build().NewSession(sa, trigger) // default options
	if err != nil {
		t.Fatalf("engine call returned a Go error: %s", err)
	}
	return session, sprint
}

func TestHunt2C05OneEvaluationExhaustsMemory(t *testing.T) {
	for name, text := range hunt2C05F1Templates() {
		shown := text
		if len(shown) > 100 {
			shown = shown[:50] + " ... " + shown[len(shown)-40:]
		}

		cmd := exec.Command(os.Args[0], "-test.run=^TestHunt2C05F1ChildProcess$", "-test.v")
		cmd.Env = append(os.Environ(), "HUNT2_C05_F1_CHILD="+name)
		done := make(chan struct{})
		var out []byte
		var err error
		start := time.Now()
		go func() { out, err = cmd.CombinedOutput(); close(done) }()
		select {
		case <-done:
		case <-time.After(3 * time.Minute):
			cmd.Process.Kill()
			<-done
			err = fmt.Errorf("killed after 3 minutes")
		}

		if err != nil {
			lines := strings.Split(strings.TrimSpace(string(out)), "\n")
			if len(lines) > 1 && strings.HasPrefix(lines[0], "=== RUN") {
				lines = lines[1:]
			}
			t.Errorf("%s: NewSession for a flow whose only action is send_msg with the %d character text %s did not return normally (%s after %s), the child process said:\n    %s",
				name, len(text), shown, err, time.Since(start).Round(time.Millisecond), strings.Join(lines[:min(len(lines), 3)], "\n    "))
		} else {
			t.Logf("%s: returned normally: %s", name, strings.TrimSpace(string(out)))
		}
	}
}

// not a test in its own right: the body only runs in the child processes started above
func TestHunt2C05F1ChildProcess(t *testing.T) {
	name := os.Getenv("HUNT2_C05_F1_CHILD")
	if name == "" {
		t.Skip("only runs as a child of TestHunt2C05OneEvaluationExhaustsMemory")
	}
	limit := &syscall.Rlimit{Cur: 4 << 30, Max: 4 << 30}
	if err := syscall.Setrlimit(syscall.RLIMIT_AS, limit); err != nil {
		t.Fatalf("can't cap address space, not going on: %s", err)
	}

	session, sprint := hunt2C05F1Start(t, hunt2C05F1Templates()[name])

	// what the property allows: a message within MaxTemplateChars, or an error event and an empty message
	for _, e := range sprint.Events() {
		if e.Type() == "msg_created" {
			ej, _ := json.Marshal(e)
			var m struct {
				Msg struct {
					Text string `json:"text"`
				} `json:"msg"`
			}
			json.Unmarshal(ej, &m)
			if n := len([]rune(m.Msg.Text)); n > session.Engine().Options().MaxTemplateChars {
				t.Fatalf("message text has %d characters", n)
			}
		}
	}
	fmt.Printf("session %s with %d events\n", session.Status(), len(sprint.Events()))
}
