package engine_test

import (
	"fmt"
	"math/rand"
	"sync"
	"testing"
	"time"

	"github.com/nyaruka/gocommon/urns"
	"github.com/nyaruka/goflow/assets"
	"github.com/nyaruka/goflow/flows"
	"github.com/nyaruka/goflow/flows/engine"
	"github.com/nyaruka/goflow/flows/events"
	"github.com/nyaruka/goflow/flows/modifiers"
	"github.com/nyaruka/goflow/test"
)

var exMods = []string{
	`{"type": "name", "name": "bob"}`, `{"type": "name", "name": ""}`, `{"type": "name", "name": "Jim"}`,
	`{"type": "language", "language": "fra"}`, `{"type": "language", "language": ""}`,
	`{"type": "field", "field": {"key": "age", "name": "Age"}, "value": "18"}`,
	`{"type": "field", "field": {"key": "age", "name": "Age"}, "value": ""}`,
	`{"type": "field", "field": {"key": "gender", "name": "Gender"}, "value": "F"}`,
	`{"type": "field", "field": {"key": "joined", "name": "Joined"}, "value": "2024-05-06T12:00:00Z"}`,
	`{"type": "field", "field": {"key": "state", "name": "State"}, "value": "Kigali"}`,
	`{"type": "status", "status": "blocked"}`, `{"type": "status", "status": "active"}`, `{"type": "status", "status": "archived"}`,
	`{"type": "urns", "urns": ["tel:+12065551212"], "modification": "append"}`,
	`{"type": "urns", "urns": ["tel:+12065551212"], "modification": "remove"}`,
	`{"type": "urns", "urns": ["twitter:bobby", "mailto:bob@example.com"], "modification": "set"}`,
	`{"type": "urns", "urns": [], "modification": "set"}`,
	`{"type": "channel", "channel": {"uuid": "8e21f093-99aa-413b-b55b-758b54308fcb", "name": "Tw"}}`,
	`{"type": "channel", "channel": null}`,
	`{"type": "ticket", "topic": {"uuid": "472a7a73-96cb-4736-b567-056d987cc5b4", "name": "General"}, "assignee": null, "note": ""}`,
	`{"type": "groups", "groups": [{"uuid": "b7cf0d83-f1c9-411c-96fd-c511a4cfa86d", "name": "Static1"}], "modification": "add"}`,
	`{"type": "groups", "groups": [{"uuid": "b7cf0d83-f1c9-411c-96fd-c511a4cfa86d", "name": "Static1"}, {"uuid": "00000000-0000-4000-8000-000000000000", "name": "Q0"}], "modification": "remove"}`,
	`{"type": "groups", "groups": [{"uuid": "00000001-0000-4000-8000-000000000000", "name": "Q1"}], "modification": "add"}`,
	`{"type": "timezone", "timezone": "Africa/Kigali"}`, `{"type": "timezone", "timezone": ""}`,
}

func TestHunt2Mods(t *testing.T) {
	exRnd = rand.New(rand.NewSource(1))
	sa, err := test.CreateSessionAssets(exAssets(t, "[]"), "")
	if err != nil {
		t.Fatal(err)
	}
	eng := engine.NewBuilder().Build()
	var wg sync.WaitGroup
	for w := 0; w < 8; w++ {
		wg.Add(1)
		go func(w int) {
			defer wg.Done()
			for seed := int64(0); seed < 400; seed++ {
				rnd := rand.New(rand.NewSource(seed*8 + int64(w)))
				var refs []*assets.GroupReference
				for _, g := range sa.Groups().All() {
					if rnd.Intn(3) == 0 {
						refs = append(refs, g.Reference())
					}
				}
				contact, err := flows.NewContact(sa, "5d76d86b-3bb9-4d5a-b822-c9d86f5d8e4f", 1234, []string{"", "Bob", "Jim"}[rnd.Intn(3)], "eng", flows.ContactStatusActive, nil,
					time.Date(2020, 1, 1, 12, 0, 0, 0, time.UTC), nil, []urns.URN{"tel:+12065551213"}, refs, nil, nil, assets.PanicOnMissing)
				if err != nil {
					t.Error(err)
					return
				}
				env := exEnv(rnd)
				for i := 0; i < 6; i++ {
					mj := exMods[rnd.Intn(len(exMods))]
					mod, err := modifiers.ReadModifier(sa, []byte(mj), assets.PanicOnMissing)
					if err != nil {
						t.Errorf("%s: %s", mj, err)
						return
					}
					before := exSnapshot(contact)
					var evts []flows.Event
					modified := modifiers.Apply(eng, env, sa, contact, mod, func(e flows.Event) { evts = append(evts, e) })
					if !modified {
						continue
					}
					for _, g := range sa.Groups().All() {
						in := contact.Groups().FindByUUID(g.UUID()) != nil
						if g.UsesQuery() {
							if want := g.CheckQueryBasedMembership(env, contact); want != in {
								t.Errorf("seed %d/%d after %s: group %s member=%v query=%v", seed, w, mj, g.Query(), in, want)
							}
						} else if in && contact.Status() != flows.ContactStatusActive {
							t.Errorf("seed %d/%d after %s: non-active in static", seed, w, mj)
						}
					}
					m := exMembership{}
					for k := range before {
						m[k] = true
					}
					for _, e := range evts {
						if typed, ok := e.(*events.ContactGroupsChangedEvent); ok {
							for _, r := range typed.GroupsAdded {
								if m[r.UUID] {
									t.Errorf("added but already in")
								}
								m[r.UUID] = true
							}
							for _, r := range typed.GroupsRemoved {
								if !m[r.UUID] {
									t.Errorf("removed but not in")
								}
								delete(m, r.UUID)
							}
						}
					}
					if fmt.Sprint(len(m)) != fmt.Sprint(len(exSnapshot(contact))) {
						t.Errorf("seed %d/%d after %s: replay mismatch", seed, w, mj)
					}
					for k := range exSnapshot(contact) {
						if !m[k] {
							t.Errorf("seed %d/%d after %s: replay mismatch %s", seed, w, mj, k)
						}
					}
				}
			}
		}(w)
	}
	wg.Wait()
}
