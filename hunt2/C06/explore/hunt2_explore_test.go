package engine_test

import (
	"encoding/json"
	"fmt"
	"math/rand"
	"sort"
	"strings"
	"testing"
	"time"

	"github.com/nyaruka/gocommon/dates"
	"github.com/nyaruka/gocommon/jsonx"
	"github.com/nyaruka/gocommon/urns"
	"github.com/nyaruka/gocommon/uuids"
	"github.com/nyaruka/goflow/assets"
	"github.com/nyaruka/goflow/envs"
	"github.com/nyaruka/goflow/excellent/types"
	"github.com/nyaruka/goflow/flows"
	"github.com/nyaruka/goflow/flows/engine"
	"github.com/nyaruka/goflow/flows/events"
	"github.com/nyaruka/goflow/flows/resumes"
	"github.com/nyaruka/goflow/flows/triggers"
	"github.com/nyaruka/goflow/test"
)

var exGroups = []string{
	`name = "bob"`, `name ~ "bob"`, `name != "bob"`, `name = ""`, `name != ""`,
	`language = "fra"`, `language = ""`, `language != "eng"`,
	`urn = "+12065551212"`, `urn ~ "2065"`, `urn = ""`, `urn != ""`, `tel = "+12065551212"`, `tel != ""`, `tel = ""`, `twitter = "bobby"`, `twitter ~ "bob"`, `twitter != "bobby"`, `mailto != ""`,
	`created_on > "2019-01-01"`, `created_on = "2020-01-01"`, `last_seen_on = ""`, `last_seen_on != ""`, `last_seen_on > "2024-01-01"`, `last_seen_on <= "2024-05-06"`,
	`tickets = 0`, `tickets > 0`, `tickets = 1`, `tickets != 1`,
	`gender = "F"`, `gender != "F"`, `gender = ""`, `gender != ""`,
	`age > 18`, `age <= 18`, `age = ""`, `age != 18`, `age = 18`,
	`joined > "2024-01-01"`, `joined = ""`, `joined = "2024-05-06"`, `joined != "2024-05-06"`,
	`state = "Kigali City"`, `state != ""`, `state = ""`,
	`age > 18 AND gender = "F"`, `age > 18 OR name ~ "bob"`, `(age = "" OR language = "fra") AND tel != ""`,
	`uuid = "5d76d86b-3bb9-4d5a-b822-c9d86f5d8e4f"`,
}

func exAssets(t testing.TB, nodes string) []byte {
	groups := make([]string, 0)
	groups = append(groups, `{"uuid": "b7cf0d83-f1c9-411c-96fd-c511a4cfa86d", "name": "Static1"}`, `{"uuid": "1e1ce1e1-9288-4504-869e-022d1003c72a", "name": "Static2"}`)
	for i, q := range exGroups {
		qj, _ := json.Marshal(q)
		groups = append(groups, fmt.Sprintf(`{"uuid": "%08d-0000-4000-8000-000000000000", "name": "Q%d", "query": %s}`, i, i, qj))
	}
	return []byte(fmt.Sprintf(`{
	"flows": [{"uuid": "1b462ce8-983a-4393-b133-e15a0efdb70c", "name": "F", "spec_version": "13.0", "language": "eng", "type": "messaging", "nodes": %s},
	{"uuid": "2b462ce8-983a-4393-b133-e15a0efdb70c", "name": "Child", "spec_version": "13.0", "language": "eng", "type": "messaging", "nodes": %s}],
	"fields": [
		{"uuid": "d66a7823-eada-40e5-9a3a-57239d4690bf", "key": "gender", "name": "Gender", "type": "text"},
		{"uuid": "f1b5aea6-6586-41c7-9020-1a6326cc6565", "key": "age", "name": "Age", "type": "number"},
		{"uuid": "a1b5aea6-6586-41c7-9020-1a6326cc6565", "key": "joined", "name": "Joined", "type": "datetime"},
		{"uuid": "b1b5aea6-6586-41c7-9020-1a6326cc6565", "key": "state", "name": "State", "type": "state"}
	],
	"channels": [
		{"uuid": "57f1078f-88aa-46f4-a59a-948a5739c03d", "name": "Tel", "address": "+12345671111", "schemes": ["tel"], "roles": ["send", "receive"], "country": "US"},
		{"uuid": "8e21f093-99aa-413b-b55b-758b54308fcb", "name": "Tw", "address": "nyaruka", "schemes": ["twitter"], "roles": ["send", "receive"]}
	],
	"topics": [{"uuid": "472a7a73-96cb-4736-b567-056d987cc5b4", "name": "General"}],
	"locations": [{"name": "Rwanda", "aliases": ["Ruanda"], "children": [{"name": "Kigali City", "aliases": ["Kigali", "Kigari"], "children": []}, {"name": "Eastern Province", "children": []}]}],
	"groups": [%s]
}`, nodes, strings.ReplaceAll(exNodes(exRnd, exRnd.Intn(3), exRnd.Intn(3), true), "a0000000", "c0000000"), strings.Join(groups, ",\n")))
}

var exActions = []string{
	`{"type": "set_contact_name", "name": "Bob Smith"}`,
	`{"type": "set_contact_name", "name": "bob"}`,
	`{"type": "set_contact_name", "name": ""}`,
	`{"type": "set_contact_name", "name": "@input.text"}`,
	`{"type": "set_contact_language", "language": "fra"}`,
	`{"type": "set_contact_language", "language": "eng"}`,
	`{"type": "set_contact_language", "language": ""}`,
	`{"type": "set_contact_field", "field": {"key": "gender", "name": "Gender"}, "value": "F"}`,
	`{"type": "set_contact_field", "field": {"key": "gender", "name": "Gender"}, "value": ""}`,
	`{"type": "set_contact_field", "field": {"key": "age", "name": "Age"}, "value": "18"}`,
	`{"type": "set_contact_field", "field": {"key": "age", "name": "Age"}, "value": "19.5"}`,
	`{"type": "set_contact_field", "field": {"key": "age", "name": "Age"}, "value": "old"}`,
	`{"type": "set_contact_field", "field": {"key": "age", "name": "Age"}, "value": ""}`,
	`{"type": "set_contact_field", "field": {"key": "joined", "name": "Joined"}, "value": "2024-05-06T12:00:00Z"}`,
	`{"type": "set_contact_field", "field": {"key": "joined", "name": "Joined"}, "value": "@(now())"}`,
	`{"type": "set_contact_field", "field": {"key": "joined", "name": "Joined"}, "value": "xx"}`,
	`{"type": "set_contact_field", "field": {"key": "state", "name": "State"}, "value": "Kigali"}`,
	`{"type": "set_contact_field", "field": {"key": "state", "name": "State"}, "value": "Nowhere"}`,
	`{"type": "add_contact_urn", "scheme": "tel", "path": "+12065551212"}`,
	`{"type": "add_contact_urn", "scheme": "twitter", "path": "bobby"}`,
	`{"type": "add_contact_urn", "scheme": "mailto", "path": "bob@example.com"}`,
	`{"type": "set_contact_status", "status": "blocked"}`,
	`{"type": "set_contact_status", "status": "stopped"}`,
	`{"type": "set_contact_status", "status": "archived"}`,
	`{"type": "set_contact_status", "status": "active"}`,
		`{"type": "set_contact_timezone", "timezone": ""}`,
	`{"type": "set_contact_channel", "channel": {"uuid": "8e21f093-99aa-413b-b55b-758b54308fcb", "name": "Tw"}}`,
	`{"type": "set_contact_channel", "channel": null}`,
	`{"type": "add_contact_groups", "groups": [{"uuid": "b7cf0d83-f1c9-411c-96fd-c511a4cfa86d", "name": "Static1"}]}`,
	`{"type": "add_contact_groups", "groups": [{"uuid": "00000000-0000-4000-8000-000000000000", "name": "Q0"}]}`,
	`{"type": "add_contact_groups", "groups": [{"name_match": "Q3"}]}`,
	`{"type": "remove_contact_groups", "groups": [{"uuid": "00000002-0000-4000-8000-000000000000", "name": "Q2"}]}`,
	`{"type": "remove_contact_groups", "all_groups": true}`,
	`{"type": "open_ticket", "topic": {"uuid": "472a7a73-96cb-4736-b567-056d987cc5b4", "name": "General"}, "body": "x", "result_name": "t"}`,
	`{"type": "enter_flow", "flow": {"uuid": "2b462ce8-983a-4393-b133-e15a0efdb70c", "name": "Child"}}`,
	`{"type": "enter_flow", "flow": {"uuid": "2b462ce8-983a-4393-b133-e15a0efdb70c", "name": "Child"}, "terminal": true}`,
	`{"type": "send_msg", "text": "hi @contact.groups"}`,
}

var exRnd *rand.Rand

func exNodes(rnd *rand.Rand, n1, n2 int, child bool) string {
	mk := func(prefix string, n int) string {
		acts := make([]string, n)
		for i := range acts {
			a := exActions[rnd.Intn(len(exActions))]
			for child && strings.Contains(a, "enter_flow") {
				a = exActions[rnd.Intn(len(exActions))]
			}
			acts[i] = strings.Replace(a, `{"type"`, fmt.Sprintf(`{"uuid": "%s", "type"`, uuids.NewV4()), 1)
		}
		return strings.Join(acts, ",")
	}
	return fmt.Sprintf(`[
	{"uuid": "a0000000-0000-4000-8000-000000000001", "actions": [%s], "exits": [{"uuid": "a0000000-0000-4000-8000-0000000000e1", "destination_uuid": "a0000000-0000-4000-8000-000000000002"}]},
	{"uuid": "a0000000-0000-4000-8000-000000000002", "router": {"type": "switch", "wait": {"type": "msg", "timeout": {"seconds": 600, "category_uuid": "a0000000-0000-4000-8000-0000000000c2"}}, "operand": "@input.text", "cases": [], "categories": [{"uuid": "a0000000-0000-4000-8000-0000000000c1", "name": "All", "exit_uuid": "a0000000-0000-4000-8000-0000000000e2"}, {"uuid": "a0000000-0000-4000-8000-0000000000c2", "name": "No Response", "exit_uuid": "a0000000-0000-4000-8000-0000000000e2"}], "default_category_uuid": "a0000000-0000-4000-8000-0000000000c1"}, "exits": [{"uuid": "a0000000-0000-4000-8000-0000000000e2", "destination_uuid": "a0000000-0000-4000-8000-000000000003"}]},
	{"uuid": "a0000000-0000-4000-8000-000000000003", "actions": [%s], "exits": [{"uuid": "a0000000-0000-4000-8000-0000000000e3"}]}
	]`, mk("1", n1), mk("2", n2))
}

var exStartActive bool

type exMembership map[assets.GroupUUID]bool

func exSnapshot(c *flows.Contact) exMembership {
	m := exMembership{}
	for _, g := range c.Groups().All() {
		if m[g.UUID()] {
			panic("duplicate group in list")
		}
		m[g.UUID()] = true
	}
	return m
}

func exCheck(t *testing.T, label string, sa flows.SessionAssets, s flows.Session, before exMembership, evts []flows.Event) bool {
	ok := true
	c := s.Contact()
	for _, g := range sa.Groups().All() {
		in := c.Groups().FindByUUID(g.UUID()) != nil
		if g.UsesQuery() {
			want1 := g.CheckQueryBasedMembership(s.Environment(), c)
			want2 := g.CheckQueryBasedMembership(s.MergedEnvironment(), c)
			if in != want1 || in != want2 {
				t.Errorf("%s: group %s (%s): member=%v, query(sessionenv)=%v query(merged)=%v", label, g.Name(), g.Query(), in, want1, want2)
				ok = false
			}
		} else if in && c.Status() != flows.ContactStatusActive && exStartActive {
			t.Errorf("%s: non-active contact (%s) still in static group %s", label, c.Status(), g.Name())
			ok = false
		}
	}
	// replay events
	m := exMembership{}
	for k, v := range before {
		m[k] = v
	}
	for _, e := range evts {
		switch typed := e.(type) {
		case *events.ContactGroupsChangedEvent:
			for _, r := range typed.GroupsAdded {
				m[r.UUID] = true
			}
			for _, r := range typed.GroupsRemoved {
				delete(m, r.UUID)
			}
		case *events.ContactRefreshedEvent:
			rc, err := flows.ReadContact(sa, typed.Contact, assets.IgnoreMissing)
			if err != nil {
				t.Fatal(err)
			}
			m = exSnapshot(rc)
		}
	}
	after := exSnapshot(c)
	keys := func(m exMembership) string {
		ks := make([]string, 0)
		for k := range m {
			ks = append(ks, string(k)[:8])
		}
		sort.Strings(ks)
		return strings.Join(ks, ",")
	}
	if keys(m) != keys(after) {
		t.Errorf("%s: replaying events gives %s but contact has %s", label, keys(m), keys(after))
		ok = false
	}
	return ok
}


var exZones = []string{"UTC", "America/New_York", "Asia/Kathmandu", "Pacific/Apia", "Africa/Kigali", "America/Sao_Paulo", "Australia/Lord_Howe"}

func exEnv(rnd *rand.Rand) envs.Environment {
	tz, _ := time.LoadLocation(exZones[rnd.Intn(len(exZones))])
	df := []envs.DateFormat{envs.DateFormatYearMonthDay, envs.DateFormatDayMonthYear, envs.DateFormatMonthDayYear}[rnd.Intn(3)]
	return envs.NewBuilder().WithAllowedLanguages("eng", "fra").WithTimezone(tz).WithDateFormat(df).Build()
}

func exTime(rnd *rand.Rand) time.Time {
	// around midnight boundaries of 2024-05-06 in various zones
	base := time.Date(2024, 5, 5, 0, 0, 0, 0, time.UTC)
	return base.Add(time.Duration(rnd.Intn(72*4)) * 15 * time.Minute)
}

func TestHunt2Explore(t *testing.T) {
	stats := map[string]int{}
	defer func() { t.Log(stats) }()
	for seed := int64(0); seed < 4000; seed++ {
		rnd := rand.New(rand.NewSource(seed))
		exRnd = rnd
		nodes := exNodes(rnd, rnd.Intn(5), rnd.Intn(5), false)
		aj := exAssets(t, nodes)
		sa, err := test.CreateSessionAssets(aj, "")
		if err != nil {
			t.Fatalf("seed %d: %s", seed, err)
		}
		if len(sa.Groups().All()) != len(exGroups)+2 {
			t.Fatalf("broken groups: %d", len(sa.Groups().All()))
		}

		var refs []*assets.GroupReference
		for _, g := range sa.Groups().All() {
			if rnd.Intn(3) == 0 {
				refs = append(refs, g.Reference())
			}
		}
		var urnz []urns.URN
		if rnd.Intn(2) == 0 {
			urnz = append(urnz, urns.URN("tel:+12065551212"))
		}
		var lastSeen *time.Time
		if rnd.Intn(2) == 0 {
			ls := exTime(rnd)
			lastSeen = &ls
		}
		fields := map[string]*flows.Value{}
		if rnd.Intn(2) == 0 {
			fields["age"] = flows.NewValue(types.NewXText("18"), nil, nil, "", "", "") // text only
		}
		if rnd.Intn(2) == 0 {
			dt := types.NewXDateTime(exTime(rnd))
			fields["joined"] = flows.NewValue(types.NewXText("x"), dt, nil, "", "", "")
		}
		if rnd.Intn(2) == 0 {
			fields["state"] = flows.NewValue(types.NewXText("Kigali"), nil, nil, "Rwanda > Kigali City", "", "")
		}
		status := []flows.ContactStatus{flows.ContactStatusActive, flows.ContactStatusActive, flows.ContactStatusBlocked}[rnd.Intn(3)]
		contact, err := flows.NewContact(sa, "5d76d86b-3bb9-4d5a-b822-c9d86f5d8e4f", 1234, []string{"", "Bob", "Jim"}[rnd.Intn(3)], "eng", status, nil,
			exTime(rnd), lastSeen, urnz, refs, fields, nil, assets.PanicOnMissing)
		if err != nil {
			t.Fatal(err)
		}

		env := exEnv(rnd)
		flow, _ := sa.Flows().Get("1b462ce8-983a-4393-b133-e15a0efdb70c")
		now := exTime(rnd)
		dates.SetNowFunc(dates.NewFixedNow(now))
		var trigger flows.Trigger
		tb := triggers.NewBuilder(env, flow.Reference(false), contact)
		switch rnd.Intn(6) {
		case 0:
			trigger = tb.Manual().Build()
		case 1:
			msg := flows.NewMsgIn(flows.MsgUUID(uuids.NewV4()), urns.URN("tel:+12065551212"), nil, "bob", nil)
			trigger = tb.Msg(msg).Build()
		case 2:
			trigger = tb.Manual().AsBatch().Build()
		case 3:
			trigger = tb.Channel(assets.NewChannelReference("57f1078f-88aa-46f4-a59a-948a5739c03d", "Tel"), triggers.ChannelEventTypeNewConversation).Build()
		case 4:
			trigger = tb.Ticket(flows.OpenTicket(sa.Topics().FindByName("General"), nil), triggers.TicketEventTypeClosed).Build()
		case 5:
			trigger = tb.Campaign(triggers.NewCampaignReference("8d339613-f0be-48b7-92ee-155f4c0a6c41", "C"), "c0a6c41f-f0be-48b7-92ee-155f4c0a6c41").Build()
		}

		eng := engine.NewBuilder().Build()
		before := exSnapshot(contact)
		exStartActive = true
		s, sp, err := eng.NewSession(sa, trigger)
		if err != nil {
			t.Fatalf("seed %d: %s", seed, err)
		}
		label := fmt.Sprintf("seed %d sprint 1 (%s) nodes=%s", seed, trigger.Type(), nodes)
		if !exCheck(t, label, sa, s, before, sp.Events()) {
			return
		}

		for sprintNum := 2; sprintNum < 7 && s.Status() == flows.SessionStatusWaiting; sprintNum++ {
			sj, err := jsonx.Marshal(s)
			if err != nil {
				t.Fatal(err)
			}
			s, err = eng.ReadSession(sa, sj, assets.PanicOnMissing)
			if err != nil {
				t.Fatal(err)
			}
			before = exSnapshot(s.Contact())
			if !exCheck(t, fmt.Sprintf("seed %d after read %d", seed, sprintNum), sa, s, before, nil) {
				return
			}

			dates.SetNowFunc(dates.NewFixedNow(exTime(rnd)))
			var renv envs.Environment
			if rnd.Intn(3) == 0 {
				renv = exEnv(rnd)
			}
			var rc *flows.Contact
			if rnd.Intn(4) == 0 {
				rc = s.Contact().Clone()
				switch rnd.Intn(4) {
				case 0:
					rc.SetName("bob")
				case 1:
					rc.SetStatus(flows.ContactStatusStopped)
				case 2:
					rc.SetStatus(flows.ContactStatusActive)
				case 3:
					rc.SetLastSeenOn(exTime(rnd))
				}
			}
			var resume flows.Resume
			switch rnd.Intn(3) {
			case 0:
				msg := flows.NewMsgIn(flows.MsgUUID(uuids.NewV4()), urns.URN("tel:+12065551212"), nil, "bob", nil)
				resume = resumes.NewMsg(renv, rc, msg)
			case 1:
				resume = resumes.NewWaitTimeout(renv, rc)
			case 2:
				resume = resumes.NewRunExpiration(renv, rc)
			}
			sp, err = s.Resume(resume)
			if err != nil {
				t.Fatalf("seed %d: %s", seed, err)
			}
			stats[fmt.Sprintf("sprint%d", sprintNum)]++
			stats[fmt.Sprintf("runs%d", len(s.Runs()))]++
			for _, e := range sp.Events() {
				stats[e.Type()]++
			}
			label = fmt.Sprintf("seed %d sprint %d (%s) nodes=%s", seed, sprintNum, resume.Type(), nodes)
			if !exCheck(t, label, sa, s, before, sp.Events()) {
				return
			}
		}
	}
}
