package engine_test

import (
	"testing"
	"time"

	"github.com/nyaruka/goflow/assets"
	"github.com/nyaruka/goflow/assets/static"
	"github.com/nyaruka/goflow/envs"
	"github.com/nyaruka/goflow/flows"
	"github.com/nyaruka/goflow/flows/engine"
	"github.com/nyaruka/goflow/flows/events"
	"github.com/nyaruka/goflow/flows/triggers"
	"github.com/stretchr/testify/assert"
	"github.com/stretchr/testify/require"
)

// C06 (second wave): a date literal of a group query is validated once, with the environment the assets were loaded
// with, but is parsed again - with the error thrown away - every time the group is re-evaluated, in the session's
// environment. When the literal isn't a date in the session's date format the comparison is made against the zero time
// (year 1), so `created_on > "2030/12/25"` matches every contact and the engine puts a contact created in 2020 into the
// group "created after 2030/12/25" and reports it in a contact_groups_changed event.
func TestHunt2C06DateLiteralReparsedInSessionEnv(t *testing.T) {
	const assetsJSON = `{
		"flows": [{
			"uuid": "1b462ce8-983a-4393-b133-e15a0efdb70c", "name": "F", "spec_version": "13.0", "language": "eng", "type": "messaging",
			"nodes": [{
				"uuid": "a0000000-0000-4000-8000-000000000001",
				"actions": [{"uuid": "a0000000-0000-4000-8000-0000000000a1", "type": "send_msg", "text": "hi"}],
				"exits": [{"uuid": "a0000000-0000-4000-8000-0000000000e1"}]
			}]
		}],
		"groups": [
			{"uuid": "d7ff4872-9238-452f-9d38-2f558fea89e0", "name": "Created after 2030", "query": "created_on > \"2030/12/25\""},
			{"uuid": "047de1c9-9189-4f4c-aa04-bff0a4c2efb6", "name": "Created before 2010", "query": "created_on < \"2010/12/25\""}
		]
	}`

	// assets are loaded with the default environment (YYYY-MM-DD), like cmd/flowrunner and test.CreateSessionAssets do
	assetsEnv := envs.NewBuilder().Build()
	source, err := static.NewSource([]byte(assetsJSON))
	require.NoError(t, err)
	sa, err := engine.NewSessionAssets(assetsEnv, source, nil)
	require.NoError(t, err)
	require.Len(t, sa.Groups().All(), 2, "both queries are valid for the environment the assets were loaded with")

	after2030 := sa.Groups().Get("d7ff4872-9238-452f-9d38-2f558fea89e0")
	before2010 := sa.Groups().Get("047de1c9-9189-4f4c-aa04-bff0a4c2efb6")

	createdOn := time.Date(2020, 1, 1, 12, 0, 0, 0, time.UTC)
	older := time.Date(2005, 1, 1, 12, 0, 0, 0, time.UTC)

	contact, err := flows.NewContact(sa, "5d76d86b-3bb9-4d5a-b822-c9d86f5d8e4f", 1234, "Bob", "eng", flows.ContactStatusActive, nil,
		createdOn, nil, nil, nil, nil, nil, assets.PanicOnMissing)
	require.NoError(t, err)
	oldContact, err := flows.NewContact(sa, "6d76d86b-3bb9-4d5a-b822-c9d86f5d8e4f", 1235, "Ann", "eng", flows.ContactStatusActive, nil,
		older, nil, nil, []*assets.GroupReference{before2010.Reference()}, nil, nil, assets.PanicOnMissing)
	require.NoError(t, err)

	// with the environment the queries were written for, the memberships are what the queries say
	assert.False(t, after2030.CheckQueryBasedMembership(assetsEnv, contact))
	assert.True(t, before2010.CheckQueryBasedMembership(assetsEnv, oldContact))

	// the session's environment (which comes with the trigger) uses day first dates (test/testdata/runner/stop.test.json likewise runs a non-default format, MM-DD-YYYY, over default assets)
	sessionEnv := envs.NewBuilder().WithDateFormat(envs.DateFormatDayMonthYear).Build()
	flow, err := sa.Flows().Get("1b462ce8-983a-4393-b133-e15a0efdb70c")
	require.NoError(t, err)

	eng := engine.NewBuilder().Build()

	// 1. a contact created in 2020 is put into the group of contacts created after 2030/12/25
	session, sprint, err := eng.NewSession(sa, triggers.NewBuilder(sessionEnv, flow.Reference(false), contact).Manual().Build())
	require.NoError(t, err)
	require.Equal(t, flows.SessionStatusCompleted, session.Status())

	for _, e := range sprint.Events() {
		if ge, ok := e.(*events.ContactGroupsChangedEvent); ok {
			for _, g := range ge.GroupsAdded {
				t.Logf("contact created on %s reported as added to group '%s'", createdOn.Format("2006-01-02"), g.Name)
			}
		}
	}
	assert.Nil(t, session.Contact().Groups().FindByUUID(after2030.UUID()),
		"contact created on 2020-01-01 handed back as a member of the group with query %s", after2030.Query())

	// 2. a contact created in 2005, correctly stored as a member of "created before 2010/12/25", is taken out of it
	session, sprint, err = eng.NewSession(sa, triggers.NewBuilder(sessionEnv, flow.Reference(false), oldContact).Manual().Build())
	require.NoError(t, err)
	for _, e := range sprint.Events() {
		if ge, ok := e.(*events.ContactGroupsChangedEvent); ok {
			for _, g := range ge.GroupsRemoved {
				t.Logf("contact created on %s reported as removed from group '%s'", older.Format("2006-01-02"), g.Name)
			}
		}
	}
	assert.NotNil(t, session.Contact().Groups().FindByUUID(before2010.UUID()),
		"contact created on 2005-01-01 handed back without its membership of the group with query %s", before2010.Query())
}
