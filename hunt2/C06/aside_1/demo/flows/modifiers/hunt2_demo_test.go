package modifiers_test

import (
	"testing"

	"github.com/nyaruka/goflow/assets"
	"github.com/nyaruka/goflow/assets/static"
	"github.com/nyaruka/goflow/envs"
	"github.com/nyaruka/goflow/flows"
	"github.com/nyaruka/goflow/flows/engine"
	"github.com/nyaruka/goflow/flows/modifiers"
	"github.com/stretchr/testify/assert"
	"github.com/stretchr/testify/require"
)

// Not a C06 clause: "groups": [null] in a contact (flows.ReadContact, and through it ReadSession / ReadTrigger / ReadResume)
// or in a groups modifier (modifiers.ReadModifier) passes validation (`dive` skips nil elements) and is then dereferenced.
func TestHunt2AsideNullGroupReference(t *testing.T) {
	source, err := static.NewSource([]byte(`{"groups": [{"uuid": "d7ff4872-9238-452f-9d38-2f558fea89e0", "name": "G", "query": "name = bob"}]}`))
	require.NoError(t, err)
	sa, err := engine.NewSessionAssets(envs.NewBuilder().Build(), source, nil)
	require.NoError(t, err)

	assert.NotPanics(t, func() {
		_, err := flows.ReadContact(sa, []byte(`{"uuid": "ba96bf7f-bc2a-4873-a7c7-254d1927c4e3", "created_on": "2020-01-01T00:00:00Z", "groups": [null]}`), assets.IgnoreMissing)
		assert.Error(t, err)
	}, "flows.ReadContact")

	assert.NotPanics(t, func() {
		_, err := modifiers.ReadModifier(sa, []byte(`{"type": "groups", "modification": "add", "groups": [null]}`), assets.IgnoreMissing)
		assert.Error(t, err)
	}, "modifiers.ReadModifier")
}
