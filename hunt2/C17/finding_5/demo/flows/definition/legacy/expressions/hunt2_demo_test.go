package expressions_test

import (
	"testing"
	"time"

	"github.com/nyaruka/goflow/envs"
	"github.com/nyaruka/goflow/excellent"
	"github.com/nyaruka/goflow/excellent/types"
	"github.com/nyaruka/goflow/flows/definition/legacy/expressions"
)

// MigrateTemplate removes every @("") from a template. The text that followed the removed expression then follows
// the previous token, but the check that keeps a bare identifier apart from the following text (separateFrom, db33e56)
// only looks at the token directly after the identifier - which was the @("") - so nothing is kept apart:
// `@contact.name@("")s` becomes `@contact.names`.
func TestHunt2C17EmptyExpressionRemovedGluesIdentifier(t *testing.T) {
	env := envs.NewBuilder().WithDateFormat(envs.DateFormatDayMonthYear).WithTimezone(time.UTC).Build()
	ctx := types.JSONToXValue([]byte(`{
		"contact": {"__default__": "Bob", "name": "Bob", "names": "SOMETHING ELSE"},
		"results": {"age": {"__default__": "7", "value": "7"}, "ageth": "SOMETHING ELSE"},
		"input": {"__default__": "hi", "text": "hi"}
	}`)).(*types.XObject)

	tcs := []struct {
		legacy string
		want   string
	}{
		{`@contact.name@("")s`, "Bobs"},
		{`@(contact.name)@("")s`, "Bobs"},
		{`your @flow.age@("")th birthday`, "your 7th birthday"},
		{`@contact@("")1`, "Bob1"},
		{`@step.value@("").0`, "hi.0"},
	}
	for _, tc := range tcs {
		migrated, err := expressions.MigrateTemplate(tc.legacy, nil)
		if err != nil {
			t.Errorf("%s: migration error %s", tc.legacy, err)
			continue
		}
		got, _, evalErr := excellent.NewEvaluator().Template(env, ctx, migrated, nil)
		if got != tc.want {
			t.Errorf("legacy %s denotes %q, migrated %s evaluates to %q (error: %v)", tc.legacy, tc.want, migrated, got, evalErr)
		}
	}
}
