package expressions_test

import (
	"strings"
	"testing"
	"time"

	"github.com/nyaruka/goflow/envs"
	"github.com/nyaruka/goflow/excellent"
	"github.com/nyaruka/goflow/excellent/types"
	"github.com/nyaruka/goflow/flows/definition/legacy/expressions"
)

// A sum a + b + c ... whose operands are not all integer literals is migrated to legacy_add(legacy_add(legacy_add(a, b),
// c) ...): a FLAT legacy chain becomes a NESTED expression. With 834 or more additions (1669 tokens, nesting 0: far
// inside checkExpressionSize's 10000 tokens / nesting 250) the new parser refuses the result ("expression is too
// deeply nested", excellent.MaxParseDepth) although `a + b + c ...` itself parses and evaluates fine there.
func TestHunt2C17LongSumBecomesTooDeep(t *testing.T) {
	env := envs.NewBuilder().WithDateFormat(envs.DateFormatDayMonthYear).WithTimezone(time.UTC).Build()
	ctx := types.NewXObject(map[string]types.XValue{})

	for _, n := range []int{100, 800, 834, 1000, 2000} {
		legacy := "@(" + strings.Repeat("1 + ", n) + "1)"

		migrated, err := expressions.MigrateTemplate(legacy, nil)
		if err != nil {
			continue // reported as not migratable: fine
		}
		if _, perr := excellent.Parse(migrated[2:len(migrated)-1], nil); perr != nil {
			t.Errorf("legacy sum of %d ones migrated without error to an expression which does not parse: %s", n+1, perr)
		}
		got, _, _ := excellent.NewEvaluator().Template(env, ctx, migrated, nil)
		if want := types.NewXNumberFromInt(n + 1).Render(); got != want {
			t.Errorf("legacy sum of %d ones evaluates to %q after migration", n+1, got)
		}
	}
}
