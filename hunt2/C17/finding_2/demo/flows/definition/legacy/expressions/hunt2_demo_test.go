package expressions_test

import (
	"testing"
	"time"

	"github.com/nyaruka/goflow/envs"
	"github.com/nyaruka/goflow/excellent"
	"github.com/nyaruka/goflow/excellent/types"
	"github.com/nyaruka/goflow/flows/definition/legacy/expressions"
)

// Legacy WORD / FIRST_WORD give the empty text when there is no such word (testdata/legacy_tests.json:
// `@(WORD(" ", 1))` -> "", `@(WORD(" abc def   ghi", 6))` -> "", `@(FIRST_WORD("  "))` -> "", all with "errors": []).
// After migration word(...) is an ERROR value for such a position, so every expression that contains the call is an
// error as well: the usual "did they send a second word?" test no longer works.
func TestHunt2C17WordOutOfRangeIsEmptyText(t *testing.T) {
	env := envs.NewBuilder().WithDateFormat(envs.DateFormatDayMonthYear).WithTimezone(time.UTC).Build()
	ctx := types.JSONToXValue([]byte(`{"input": {"__default__": "register", "text": "register"}}`)).(*types.XObject)

	tcs := []struct {
		legacy  string
		options *expressions.MigrateOptions
		want    string // value denoted by the legacy template (WORD/FIRST_WORD of a missing word = "")
	}{
		{`@(IF(WORD(step.value, 2) = "", "one word", "more words"))`, nil, "one word"},
		{`@(WORD("a b", 6) & "!")`, nil, "!"},
		{`@(LEN(WORD("a b", 6)))`, nil, "0"},
		{`@(FIRST_WORD("  ") & "x")`, nil, "x"},
		{`@(UPPER(WORD(step.value, 2)) & "|" & WORD(step.value, 1))`, nil, "|register"},
		// operand of a "split by expression" ruleset (migrated with DefaultToSelf): legacy operand is the empty text
		{`@(WORD(step.value, 2))`, &expressions.MigrateOptions{DefaultToSelf: true}, ""},
	}
	for _, tc := range tcs {
		migrated, err := expressions.MigrateTemplate(tc.legacy, tc.options)
		if err != nil {
			t.Errorf("%s: migration error %s", tc.legacy, err)
			continue
		}
		got, _, evalErr := excellent.NewEvaluator().Template(env, ctx, migrated, nil)
		if got != tc.want {
			t.Errorf("legacy %s denotes %q\n   migrated %s\n   evaluates to %q (error: %v)", tc.legacy, tc.want, migrated, got, evalErr)
		}
	}
}
