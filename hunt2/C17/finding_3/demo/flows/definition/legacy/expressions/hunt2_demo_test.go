package expressions_test

import (
	"strings"
	"testing"
	"time"

	"github.com/nyaruka/goflow/envs"
	"github.com/nyaruka/goflow/excellent"
	"github.com/nyaruka/goflow/excellent/types"
	"github.com/nyaruka/goflow/flows/definition/legacy/expressions"
)

// In the legacy grammar a reference such as extra.votes.true or flow.null.category is ONE NAME token (TRUE and FALSE
// are keywords only as whole tokens, null is no keyword at all). The reference is renamed and written with dots, but in
// the new grammar true, false and null are keywords wherever they occur and `atom DOT (NAME | INTEGER)` does not take
// them: the migrated expression does not parse (and MigrateTemplate returns no error).
func TestHunt2C17KeywordPathSegment(t *testing.T) {
	env := envs.NewBuilder().WithDateFormat(envs.DateFormatDayMonthYear).WithTimezone(time.UTC).Build()
	ctx := types.JSONToXValue([]byte(`{
		"fields": {"true": "T"},
		"results": {"null": {"value": "3", "category_localized": "Yes"}},
		"legacy_extra": {"votes": {"true": 5, "false": 3}, "null": "nn"}
	}`)).(*types.XObject)

	tcs := []struct {
		legacy string
		want   string
	}{
		{`@extra.votes.true yes, @extra.votes.false no`, "5 yes, 3 no"}, // webhook returned {"votes": {"true": 5, "false": 3}}
		{`@(extra.votes.true - extra.votes.false)`, "2"},
		{`@extra.null`, "nn"},
		{`@flow.null.category`, "Yes"}, // a result named "Null"
		{`@(flow.null.value * 2)`, "6"},
		{`@contact.true`, "T"}, // a contact field with key "true"
	}
	for _, tc := range tcs {
		migrated, err := expressions.MigrateTemplate(tc.legacy, nil)
		if err != nil {
			t.Errorf("%s: migration error %s", tc.legacy, err)
			continue
		}

		// every expression of the migrated template has to parse
		scanner := excellent.NewXScanner(strings.NewReader(migrated), []string{"fields", "results", "legacy_extra"})
		for tokenType, token := scanner.Scan(); tokenType != excellent.EOF; tokenType, token = scanner.Scan() {
			if tokenType == excellent.IDENTIFIER || tokenType == excellent.EXPRESSION {
				if _, err := excellent.Parse(token, nil); err != nil {
					t.Errorf("legacy %s migrated to %s in which %q does not parse: %s", tc.legacy, migrated, token, err)
				}
			}
		}

		got, _, evalErr := excellent.NewEvaluator().Template(env, ctx, migrated, nil)
		if got != tc.want {
			t.Errorf("legacy %s denotes %q, migrated %s evaluates to %q (error: %v)", tc.legacy, tc.want, migrated, got, evalErr)
		}
	}
}
