package expressions_test

import (
	"testing"

	"github.com/nyaruka/goflow/excellent"
	"github.com/nyaruka/goflow/flows/definition/legacy/expressions"
)

// 6cee681 made calls with the wrong number of arguments a migration error instead of text that does not parse, but
// FIXED (asParamMigratorsWithDefaults) fills missing parameters from its defaults {"", "2"}: for FIXED() the first
// "default" is the empty text and the call comes out as format_number(, 2) - with err == nil.
func TestHunt2C17FixedWithoutArguments(t *testing.T) {
	for _, legacy := range []string{`@(FIXED())`, `@(1 + FIXED())`, `@(IF(TRUE, FIXED(), 0))`} {
		migrated, err := expressions.MigrateTemplate(legacy, nil)
		if err != nil {
			continue // reported as not migratable (and left as it is): fine
		}
		if _, perr := excellent.Parse(migrated[2:len(migrated)-1], nil); perr != nil {
			t.Errorf("legacy %s migrated without error to %s which does not parse: %s", legacy, migrated, perr)
		}
	}
}
