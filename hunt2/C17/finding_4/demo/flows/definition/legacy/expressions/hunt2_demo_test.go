package expressions_test

import (
	"testing"
	"time"

	"github.com/nyaruka/goflow/envs"
	"github.com/nyaruka/goflow/excellent"
	"github.com/nyaruka/goflow/excellent/types"
	"github.com/nyaruka/goflow/flows/definition/legacy/expressions"
)

// Legacy WORD_SLICE takes negative positions like a Python slice: a negative stop leaves out words at the end, a
// negative start counts from the end. testdata/legacy_tests.json records (no errors for these two):
//
//	@(WORD_SLICE(" abc  def ghi-jkl ", 2, -1)) -> def ghi
//	@(WORD_SLICE(" abc  def ghi-jkl ", -1, 0)) -> jkl
//
// The positions are passed on to word_slice (since 2bc893a unchanged, "already the same in both systems"), but for
// word_slice a negative end means "all the rest" and a negative start is an error.
func TestHunt2C17WordSliceNegativePositions(t *testing.T) {
	env := envs.NewBuilder().WithDateFormat(envs.DateFormatDayMonthYear).WithTimezone(time.UTC).Build()
	ctx := types.JSONToXValue([]byte(`{"fields": {"stop": -1}}`)).(*types.XObject)

	tcs := []struct {
		legacy string
		want   string
	}{
		{`@(WORD_SLICE(" abc  def ghi-jkl ", 2, -1))`, "def ghi"},     // legacy_tests.json
		{`@(WORD_SLICE(" abc  def ghi-jkl ", -1, 0))`, "jkl"},         // legacy_tests.json
		{`@(WORD_SLICE("bee cat dog emu", 1, -2))`, "bee cat"},        // same rule
		{`@(WORD_SLICE("bee cat dog emu", -2))`, "dog emu"},           // same rule
		{`@(WORD_SLICE("bee cat dog emu", 2, contact.stop))`, "cat dog"}, // stop from a field
	}
	for _, tc := range tcs {
		migrated, err := expressions.MigrateTemplate(tc.legacy, nil)
		if err != nil {
			t.Errorf("%s: migration error %s", tc.legacy, err)
			continue
		}
		got, _, evalErr := excellent.NewEvaluator().Template(env, ctx, migrated, nil)
		if got != tc.want {
			t.Errorf("legacy %s denotes %q, migrated %s evaluates to %q (error: %v)", tc.legacy, tc.want, migrated, got, evalErr)
		}
	}
}
