package expressions_test

import (
	"testing"
	"time"

	"github.com/nyaruka/gocommon/dates"
	"github.com/nyaruka/goflow/envs"
	"github.com/nyaruka/goflow/excellent"
	"github.com/nyaruka/goflow/excellent/types"
	"github.com/nyaruka/goflow/flows/definition/legacy/expressions"
)

// A time added to (subtracted from) a datetime is migrated to a whole number of MINUTES:
// datetime_add(d, format_time(t, "tt") * 60 + format_time(t, "m"), "m"). The seconds of the time are lost
// (legacy: TIME(h, m, s) is a duration of h hours, m minutes and s seconds - legacy_tests.json has
// `@(contact.joined + TIME(2, 30, 0))` = 11:30 for 09:00).
func TestHunt2C17DatetimePlusTimeDropsSeconds(t *testing.T) {
	env := envs.NewBuilder().WithDateFormat(envs.DateFormatDayMonthYear).WithTimezone(time.UTC).Build()
	ctx := types.NewXObject(map[string]types.XValue{})

	dates.SetNowFunc(dates.NewFixedNow(time.Date(2020, 3, 5, 10, 0, 0, 0, time.UTC)))
	defer dates.SetNowFunc(time.Now)

	tcs := []struct {
		legacy string
		want   string
	}{
		{`@(date.now + TIME(2, 30, 0))`, "2020-03-05T12:30:00.000000Z"}, // control: passes
		{`@(date.now + TIME(0, 0, 30))`, "2020-03-05T10:00:30.000000Z"},
		{`@(date.now - TIME(0, 0, 30))`, "2020-03-05T09:59:30.000000Z"},
		{`@(NOW() + TIME(1, 1, 59))`, "2020-03-05T11:01:59.000000Z"},
		{`@(NOW() + TIMEVALUE("00:00:45"))`, "2020-03-05T10:00:45.000000Z"},
	}
	for _, tc := range tcs {
		migrated, err := expressions.MigrateTemplate(tc.legacy, nil)
		if err != nil {
			t.Errorf("%s: migration error %s", tc.legacy, err)
			continue
		}
		got, _, evalErr := excellent.NewEvaluator().Template(env, ctx, migrated, nil)
		if got != tc.want {
			t.Errorf("legacy %s denotes %q, migrated %s evaluates to %q (error: %v)", tc.legacy, tc.want, migrated, got, evalErr)
		}
	}
}
