package expressions_test

import (
	"testing"
	"time"

	"github.com/nyaruka/goflow/flows/definition/legacy/expressions"
)

// A datetime plus/minus a time is migrated to an expression that contains the time operand TWICE
// (format_time(t, "tt") * 60 + format_time(t, "m")). When that operand itself contains a datetime +/- time, the
// migrated expression doubles at every level of nesting: a 336 byte legacy expression becomes more than a megabyte,
// 650 bytes would need gigabytes (the process is killed), all well inside the limits checked by checkExpressionSize
// (10000 tokens, nesting 250).
func TestHunt2C17ExponentialDatetimePlusTime(t *testing.T) {
	build := func(depth int) string {
		e := "TIME(1, 0, 0)"
		for i := 0; i < depth; i++ {
			e = "TIME(HOUR(NOW() + " + e + "), 0, 0)"
		}
		return "@(NOW() + " + e + ")"
	}

	prev := 0
	for _, depth := range []int{2, 4, 6, 8, 10, 12} {
		legacy := build(depth)

		start := time.Now()
		migrated, _ := expressions.MigrateTemplate(legacy, nil)
		took := time.Since(start)

		t.Logf("nesting %2d: legacy template %4d bytes -> migrated template %8d bytes in %v", depth, len(legacy), len(migrated), took)

		if len(migrated) > 100*len(legacy)+1000 {
			t.Errorf("nesting %d: legacy template of %d bytes migrated to a template of %d bytes (previous step: %d): migration output doubles with each level of nesting",
				depth, len(legacy), len(migrated), prev)
		}
		prev = len(migrated)
	}
}
