package expressions_test

import (
	"testing"
	"time"

	"github.com/nyaruka/goflow/envs"
	"github.com/nyaruka/goflow/excellent"
	"github.com/nyaruka/goflow/excellent/types"
	"github.com/nyaruka/goflow/flows/definition/legacy/expressions"
)

// 2bc893a stopped shifting negative word positions (they count from the end in both systems:
// legacy_tests.json `@(WORD("abc-def  ghi  jkl", -1))` -> jkl) - but only when the position is an integer LITERAL.
// A position that is negative when the expression is evaluated is still migrated to `position - 1`.
func TestHunt2C17ComputedNegativeWordPosition(t *testing.T) {
	env := envs.NewBuilder().WithDateFormat(envs.DateFormatDayMonthYear).WithTimezone(time.UTC).Build()
	ctx := types.JSONToXValue([]byte(`{"fields": {"pos": -1, "n": 1}}`)).(*types.XObject)

	tcs := []struct {
		legacy string
		want   string
	}{
		{`@(WORD("bee cat dog", -1))`, "dog"}, // control: literal, passes
		{`@(WORD("bee cat dog", -(1)))`, "dog"},
		{`@(WORD("bee cat dog", 0 - 1))`, "dog"},
		{`@(WORD("bee cat dog", -contact.n))`, "dog"},
		{`@(WORD("bee cat dog", contact.pos))`, "dog"},
		{`@(WORD("bee cat dog", "-1"))`, "dog"},
	}
	for _, tc := range tcs {
		migrated, err := expressions.MigrateTemplate(tc.legacy, nil)
		if err != nil {
			t.Errorf("%s: migration error %s", tc.legacy, err)
			continue
		}
		got, _, evalErr := excellent.NewEvaluator().Template(env, ctx, migrated, nil)
		if got != tc.want {
			t.Errorf("legacy %s denotes %q, migrated %s evaluates to %q (error: %v)", tc.legacy, tc.want, migrated, got, evalErr)
		}
	}
}
