package definition_test

import (
	"slices"
	"testing"

	"github.com/nyaruka/goflow/assets"
	"github.com/nyaruka/goflow/flows"
	"github.com/nyaruka/goflow/flows/events"
	"github.com/nyaruka/goflow/test"
	"github.com/nyaruka/goflow/utils"
	"github.com/stretchr/testify/assert"
	"github.com/stretchr/testify/require"
)

// C20: "every result any run of the flow saves appears in the inspection's results under the same key (and its
// category among the listed ones when categories are fixed)".
//
// Two items of one flow declare the same result key with categories that differ only in case: a wait-for-response
// router ("Color": Red / Other) and, on the next node, a set_run_result that normalises the answer ("color": "RED").
// flows.NewResultSpecs merges the declared categories of a key case-insensitively (flows/info.go), so the second
// spelling is dropped from Inspect().results, but the run saves it verbatim.
func TestHunt2C20CategoryCaseMergedAway(t *testing.T) {
	const flowUUID = "8ca44c09-791d-453a-9799-a70dd3303306"

	assetsJSON := `{
	"flows": [{
		"uuid": "` + flowUUID + `", "name": "Colors", "spec_version": "13.6.0", "language": "eng", "type": "messaging",
		"nodes": [
			{
				"uuid": "a58be63b-907d-4a1a-856b-0bb5579d7507",
				"router": {
					"type": "switch",
					"wait": {"type": "msg"},
					"operand": "@input.text",
					"result_name": "Color",
					"categories": [
						{"uuid": "598ae7a5-2f81-48f1-afac-595262514aa1", "name": "Red", "exit_uuid": "37d8813f-1402-4ad2-9cc2-e9054a96525b"},
						{"uuid": "78ae8f05-f92e-43b2-a886-406eaea1b8e0", "name": "Other", "exit_uuid": "fc2fcd23-7c4a-44bd-a8c6-6c88e6ed09f8"}
					],
					"cases": [
						{"uuid": "98503572-25bf-40ce-ad72-8836b6549a38", "type": "has_any_word", "arguments": ["red"], "category_uuid": "598ae7a5-2f81-48f1-afac-595262514aa1"}
					],
					"default_category_uuid": "78ae8f05-f92e-43b2-a886-406eaea1b8e0"
				},
				"exits": [
					{"uuid": "37d8813f-1402-4ad2-9cc2-e9054a96525b", "destination_uuid": "11a772f3-3ca2-4429-8b33-20fdcfc2b69e"},
					{"uuid": "fc2fcd23-7c4a-44bd-a8c6-6c88e6ed09f8"}
				]
			},
			{
				"uuid": "11a772f3-3ca2-4429-8b33-20fdcfc2b69e",
				"actions": [
					{"uuid": "ad154980-7bf7-4ab8-8728-545fd6378912", "type": "set_run_result", "name": "color", "value": "#ff0000", "category": "RED"}
				],
				"exits": [{"uuid": "d7a36118-0a38-4b35-a7e4-ae89042f0d3c"}]
			}
		]
	}]}`

	sa, session, _, err := test.NewSessionBuilder().WithAssetsJSON([]byte(assetsJSON)).WithFlow(flowUUID).Build()
	require.NoError(t, err)
	require.Equal(t, flows.SessionStatusWaiting, session.Status())

	// what inspection promises
	flow, err := sa.Flows().Get(assets.FlowUUID(flowUUID))
	require.NoError(t, err)
	listed := make(map[string][]string)
	for _, spec := range flow.Inspect(sa).Results {
		listed[spec.Key] = spec.Categories
	}
	t.Logf("Inspect().results: %v", listed)

	// what a run does
	session, sprint, err := test.ResumeSession(session, sa, "I like red")
	require.NoError(t, err)
	require.Equal(t, flows.SessionStatusCompleted, session.Status())

	saved := 0
	for _, e := range sprint.Events() {
		if rc, ok := e.(*events.RunResultChangedEvent); ok {
			saved++
			key := utils.Snakify(rc.Name)
			cats, declared := listed[key]
			if assert.True(t, declared, "result key %s saved by the run is not in Inspect().results", key) {
				assert.True(t, slices.Contains(cats, rc.Category),
					"run saved result %q (key %s) with category %q, but Inspect().results lists only %v for that key", rc.Name, key, rc.Category, cats)
			}
		}
	}
	assert.Equal(t, 2, saved, "expected the router and the action to each save the result")
}
