package engine_test

import (
	"fmt"
	"strings"
	"testing"
	"time"

	"github.com/nyaruka/gocommon/dates"
	"github.com/nyaruka/gocommon/jsonx"
	"github.com/nyaruka/gocommon/random"
	"github.com/nyaruka/gocommon/urns"
	"github.com/nyaruka/gocommon/uuids"
	"github.com/nyaruka/goflow/assets"
	"github.com/nyaruka/goflow/assets/static"
	"github.com/nyaruka/goflow/envs"
	"github.com/nyaruka/goflow/flows"
	"github.com/nyaruka/goflow/flows/engine"
	"github.com/nyaruka/goflow/flows/resumes"
	"github.com/nyaruka/goflow/flows/triggers"
	"github.com/nyaruka/goflow/test"
)

var _ = strings.Repeat
var _ = urns.NilURN

const h2FlowUUID = "00000005-0000-4000-8000-000000000000"

type h2Node struct {
	actions []string // action JSON (uuid is added)
	wait    bool     // node ends in a wait for a message
	router  string   // optional explicit router JSON (overrides wait)
}

// builds a linear messaging flow: every node runs its actions, optionally waits for a message, then goes to the next node
func h2Flow(nodes ...h2Node) string {
	return h2FlowX(h2FlowUUID, "Demo", "messaging", nodes...)
}

func h2FlowX(uuid, name, typ string, nodes ...h2Node) string {
	var ns []string
	for i, n := range nodes {
		var acts []string
		for j, a := range n.actions {
			acts = append(acts, fmt.Sprintf(`{"uuid":"00000002-0000-4000-8000-%04x%08x",%s`, i, j, a[1:]))
		}
		dest, router := "", ""
		if i+1 < len(nodes) {
			dest = fmt.Sprintf(`,"destination_uuid":"00000001-0000-4000-8000-%012x"`, i+1)
		}
		if n.router != "" {
			router = `,"router":` + strings.ReplaceAll(strings.ReplaceAll(n.router, "$CAT", fmt.Sprintf("00000003-0000-4000-8000-%012x", i)), "$EXIT", fmt.Sprintf("00000004-0000-4000-8000-%012x", i))
		} else if n.wait {
			router = fmt.Sprintf(`,"router":{"type":"switch","wait":{"type":"msg"},"result_name":"R%d","operand":"@input.text","cases":[],"categories":[{"uuid":"00000003-0000-4000-8000-%012x","name":"All","exit_uuid":"00000004-0000-4000-8000-%012x"}],"default_category_uuid":"00000003-0000-4000-8000-%012x"}`, i, i, i, i)
		}
		ns = append(ns, fmt.Sprintf(`{"uuid":"00000001-0000-4000-8000-%012x","actions":[%s]%s,"exits":[{"uuid":"00000004-0000-4000-8000-%012x"%s}]}`,
			i, strings.Join(acts, ","), router, i, dest))
	}
	return fmt.Sprintf(`{"uuid":"%s","name":"%s","spec_version":"13.5.0","language":"eng","type":"%s","nodes":[%s]}`, uuid, name, typ, strings.Join(ns, ","))
}

type h2Scenario struct {
	env      envs.Environment
	assets   string // assets JSON
	contact  string // contact JSON (default Bob)
	trigger  func(env envs.Environment, sa flows.SessionAssets, contact *flows.Contact) flows.Trigger
	resumes  []func(sa flows.SessionAssets) flows.Resume // one per wait
	rejectOK bool
	engine   func() flows.Engine
	verbose  bool
	nowFunc  func() dates.NowFunc
}

func h2Msg(text string) func(flows.SessionAssets) flows.Resume {
	return func(flows.SessionAssets) flows.Resume {
		return resumes.NewMsg(nil, nil, flows.NewMsgIn("0c1b2f4e-0000-4000-8000-000000000001", urns.URN("tel:+12065551212"), nil, text, nil))
	}
}

const h2Bob = `{"uuid":"5d76d86b-3bb9-4d5a-b822-c9d86f5d8e4f","name":"Bob","language":"eng","status":"active","created_on":"2020-01-01T12:00:00Z","urns":["tel:+12065551212"]}`

// runs the scenario; returns for every engine call the sprint (events + segments) and the resulting session JSON
func h2Run(t *testing.T, sc *h2Scenario, restart bool) (sprints, sessions []string) {
	uuids.SetGenerator(uuids.NewSeededGenerator(123456, dates.NewSequentialNow(time.Date(2024, 1, 1, 0, 0, 0, 0, time.UTC), time.Second)))
	dates.SetNowFunc(dates.NewSequentialNow(time.Date(2024, 1, 15, 12, 0, 0, 0, time.UTC), time.Second))
	random.SetGenerator(random.NewSeededGenerator(123456))
	if sc.nowFunc != nil {
		dates.SetNowFunc(sc.nowFunc())
	}
	defer uuids.SetGenerator(uuids.DefaultGenerator)
	defer dates.SetNowFunc(time.Now)
	defer random.SetGenerator(random.DefaultGenerator)

	src, err := static.NewSource([]byte(sc.assets))
	if err != nil {
		t.Fatalf("assets: %s", err)
	}
	sa, err := engine.NewSessionAssets(envs.NewBuilder().Build(), src, nil)
	if err != nil {
		t.Fatalf("session assets: %s", err)
	}
	cj := sc.contact
	if cj == "" {
		cj = h2Bob
	}
	contact, err := flows.ReadContact(sa, []byte(cj), assets.IgnoreMissing)
	if err != nil {
		t.Fatal(err)
	}
	env := sc.env
	if env == nil {
		env = envs.NewBuilder().WithAllowedLanguages("eng").WithDefaultCountry("US").Build()
	}
	var eng flows.Engine
	if sc.engine != nil {
		eng = sc.engine()
	} else {
		eng = test.NewEngine()
	}
	record := func(s flows.Session, sp flows.Sprint, err error) {
		if err != nil {
			sprints = append(sprints, "ERROR: "+err.Error())
		} else {
			sprints = append(sprints, fmt.Sprintf("events=%s segments=%s", jsonx.MustMarshal(sp.Events()), jsonx.MustMarshal(sp.Segments())))
		}
		sessions = append(sessions, string(jsonx.MustMarshal(s)))
		if sc.verbose && !restart {
			t.Logf("call %d: %s", len(sprints)-1, sprints[len(sprints)-1])
		}
	}

	var trig flows.Trigger
	if sc.trigger != nil {
		trig = sc.trigger(env, sa, contact)
	} else {
		trig = triggers.NewBuilder(env, assets.NewFlowReference(h2FlowUUID, "Demo"), contact).Manual().Build()
	}
	session, sprint, err := eng.NewSession(sa, trig)
	if err != nil && sc.rejectOK {
		t.Skipf("no session to persist, the flow is rejected when it is read: %s", err)
	} else if err != nil {
		t.Fatalf("start: %s", err)
	}
	record(session, sprint, nil)

	for i, mk := range sc.resumes {
		if restart {
			marshalled := jsonx.MustMarshal(session)
			session, err = eng.ReadSession(sa, marshalled, assets.IgnoreMissing)
			if err != nil {
				t.Errorf("before resume %d: the marshalled session cannot be read back: %s", i+1, err)
				return
			}
			if again := jsonx.MustMarshal(session); string(again) != string(marshalled) {
				t.Errorf("before resume %d: clause 1: marshal -> ReadSession -> marshal is not the same JSON\nfirst:  %s\nsecond: %s", i+1, h2Diff(string(marshalled), string(again)), h2Diff(string(again), string(marshalled)))
			}
		}
		sprint, err := session.Resume(mk(sa))
		record(session, sprint, err)
	}
	if restart {
		// the final state must be persistable as well
		marshalled := jsonx.MustMarshal(session)
		s2, err := eng.ReadSession(sa, marshalled, assets.IgnoreMissing)
		if err != nil {
			t.Errorf("at the end: the marshalled session cannot be read back: %s", err)
		} else if again := jsonx.MustMarshal(s2); string(again) != string(marshalled) {
			t.Errorf("at the end: clause 1: marshal -> ReadSession -> marshal is not the same JSON\nfirst:  %s\nsecond: %s", h2Diff(string(marshalled), string(again)), h2Diff(string(again), string(marshalled)))
		}
	}
	return
}

// the part of a around the first byte where it differs from b
func h2Diff(a, b string) string {
	i := 0
	for i < len(a) && i < len(b) && a[i] == b[i] {
		i++
	}
	return fmt.Sprintf("...%q...", a[max(0, i-100):min(len(a), i+100)])
}

func h2Compare(t *testing.T, sc *h2Scenario) {
	keptSprints, keptSessions := h2Run(t, sc, false)
	restSprints, restSessions := h2Run(t, sc, true)
	for i := range keptSprints {
		if i >= len(restSprints) {
			t.Errorf("call %d was only possible on the kept-alive session", i)
			break
		}
		if keptSprints[i] != restSprints[i] {
			t.Errorf("call %d: clause 2: events/segments differ\nkept alive: %s\nrestarted:  %s", i, h2Diff(keptSprints[i], restSprints[i]), h2Diff(restSprints[i], keptSprints[i]))
		}
		if keptSessions[i] != restSessions[i] {
			t.Errorf("call %d: clause 2: resulting session JSON differs\nkept alive: %s\nrestarted:  %s", i, h2Diff(keptSessions[i], restSessions[i]), h2Diff(restSessions[i], keptSessions[i]))
		}
	}
}

// Finding 1: a run remembers the UUID found INSIDE the flow definition, the engine loads flows by the UUID of the flow
// ASSET. For an asset whose definition carries another UUID (here: a legacy export which was copied - the asset is
// 1111.., its metadata.uuid still names the flow it was copied from, 2222..) the kept-alive session goes on in the
// definition it started in, the session that was stored and read back goes on in ANOTHER flow asset (or fails when
// there is no such asset).
const h2CopyAssets = `{
	"flows": [
		{
			"uuid": "11111111-1111-4111-8111-111111111111",
			"name": "Copy",
			"version": "11.12",
			"flow_type": "M",
			"base_language": "eng",
			"metadata": {"uuid": "22222222-2222-4222-8222-222222222222", "name": "Copy", "revision": 1},
			"entry": "d51ec25f-04e6-4349-a448-e7c4d93d4597",
			"action_sets": [
				{
					"uuid": "d51ec25f-04e6-4349-a448-e7c4d93d4597", "x": 0, "y": 0,
					"destination": "4a1c9a35-2bc3-4ff4-9f3c-0b4cfaba5b35",
					"exit_uuid": "02a82a0f-34b7-4fe7-8a25-ba0a5d2e2c4f",
					"actions": [{"type": "reply", "uuid": "98388930-7a0f-4eb8-9a0a-09be2f006420", "msg": {"eng": "What is your name?"}}]
				},
				{
					"uuid": "7c6a1a0a-3f9a-4b0a-8a3d-7c0d9a5b1c11", "x": 0, "y": 200,
					"destination": null,
					"exit_uuid": "9b1d0b5e-6f0e-4b59-8e5e-1f2a3b4c5d6e",
					"actions": [{"type": "reply", "uuid": "0a6d2d4c-2a0e-4f4b-9c59-0d7e8f9a0b1c", "msg": {"eng": "Thanks, this is the COPY"}}]
				}
			],
			"rule_sets": [
				{
					"uuid": "4a1c9a35-2bc3-4ff4-9f3c-0b4cfaba5b35", "x": 0, "y": 100,
					"label": "Name", "ruleset_type": "wait_message", "operand": "@step.value", "finished_key": null, "config": {},
					"rules": [
						{
							"uuid": "c1a2b3c4-d5e6-4f70-8a9b-0c1d2e3f4a5b",
							"category": {"eng": "All Responses"},
							"destination": "7c6a1a0a-3f9a-4b0a-8a3d-7c0d9a5b1c11", "destination_type": "A",
							"test": {"type": "true"}, "label": null
						}
					]
				}
			]
		}
		%s
	]
}`

// the flow which the copy was made from: same node UUIDs (copies keep them), other content
const h2OriginalFlow = `,{
	"uuid": "22222222-2222-4222-8222-222222222222", "name": "Original", "spec_version": "13.5.0", "language": "eng", "type": "messaging",
	"nodes": [
		{
			"uuid": "d51ec25f-04e6-4349-a448-e7c4d93d4597",
			"actions": [{"uuid": "f01d693b-2af2-49fb-9e38-146eb00937e9", "type": "send_msg", "text": "What is your name?"}],
			"exits": [{"uuid": "02a82a0f-34b7-4fe7-8a25-ba0a5d2e2c4f", "destination_uuid": "4a1c9a35-2bc3-4ff4-9f3c-0b4cfaba5b35"}]
		},
		{
			"uuid": "4a1c9a35-2bc3-4ff4-9f3c-0b4cfaba5b35",
			"router": {"type": "switch", "wait": {"type": "msg"}, "result_name": "Name", "operand": "@input.text", "cases": [],
				"categories": [{"uuid": "37d8813f-1402-4ad2-9cc2-e9054a96525b", "name": "All Responses", "exit_uuid": "c1a2b3c4-d5e6-4f70-8a9b-0c1d2e3f4a5b"}],
				"default_category_uuid": "37d8813f-1402-4ad2-9cc2-e9054a96525b"},
			"exits": [{"uuid": "c1a2b3c4-d5e6-4f70-8a9b-0c1d2e3f4a5b", "destination_uuid": "7c6a1a0a-3f9a-4b0a-8a3d-7c0d9a5b1c11"}]
		},
		{
			"uuid": "7c6a1a0a-3f9a-4b0a-8a3d-7c0d9a5b1c11",
			"actions": [{"uuid": "6d1e2a3b-4c5d-4e6f-8a7b-9c0d1e2f3a4b", "type": "send_msg", "text": "Thanks, this is the ORIGINAL"}],
			"exits": [{"uuid": "9b1d0b5e-6f0e-4b59-8e5e-1f2a3b4c5d6e"}]
		}
	]
}`

func h2CopyTrigger(env envs.Environment, sa flows.SessionAssets, contact *flows.Contact) flows.Trigger {
	return triggers.NewBuilder(env, assets.NewFlowReference("11111111-1111-4111-8111-111111111111", "Copy"), contact).Manual().Build()
}

// the flow the copy was made from still exists: the restored session silently continues in it
func TestHunt2RunGoesOnInAnotherFlowAsset(t *testing.T) {
	h2Compare(t, &h2Scenario{
		assets:  fmt.Sprintf(h2CopyAssets, h2OriginalFlow),
		trigger: h2CopyTrigger,
		resumes: []func(flows.SessionAssets) flows.Resume{h2Msg("Bob")},
	})
}

// there is no asset with the UUID inside the definition: the restored session fails
func TestHunt2RunLosesItsFlowAsset(t *testing.T) {
	h2Compare(t, &h2Scenario{
		assets:  fmt.Sprintf(h2CopyAssets, ""),
		trigger: h2CopyTrigger,
		resumes: []func(flows.SessionAssets) flows.Resume{h2Msg("Bob")},
	})
}
