package engine_test

import (
	"fmt"
	"strings"
	"testing"
	"time"

	"github.com/nyaruka/gocommon/dates"
	"github.com/nyaruka/gocommon/jsonx"
	"github.com/nyaruka/gocommon/random"
	"github.com/nyaruka/gocommon/urns"
	"github.com/nyaruka/gocommon/uuids"
	"github.com/nyaruka/goflow/assets"
	"github.com/nyaruka/goflow/assets/static"
	"github.com/nyaruka/goflow/envs"
	"github.com/nyaruka/goflow/flows"
	"github.com/nyaruka/goflow/flows/engine"
	"github.com/nyaruka/goflow/flows/resumes"
	"github.com/nyaruka/goflow/flows/triggers"
	"github.com/nyaruka/goflow/test"
)

var _ = strings.Repeat
var _ = urns.NilURN

const h2FlowUUID = "00000005-0000-4000-8000-000000000000"

type h2Node struct {
	actions []string // action JSON (uuid is added)
	wait    bool     // node ends in a wait for a message
	router  string   // optional explicit router JSON (overrides wait)
}

// builds a linear messaging flow: every node runs its actions, optionally waits for a message, then goes to the next node
func h2Flow(nodes ...h2Node) string {
	return h2FlowX(h2FlowUUID, "Demo", "messaging", nodes...)
}

func h2FlowX(uuid, name, typ string, nodes ...h2Node) string {
	var ns []string
	for i, n := range nodes {
		var acts []string
		for j, a := range n.actions {
			acts = append(acts, fmt.Sprintf(`{"uuid":"00000002-0000-4000-8000-%04x%08x",%s`, i, j, a[1:]))
		}
		dest, router := "", ""
		if i+1 < len(nodes) {
			dest = fmt.Sprintf(`,"destination_uuid":"00000001-0000-4000-8000-%012x"`, i+1)
		}
		if n.router != "" {
			router = `,"router":` + strings.ReplaceAll(strings.ReplaceAll(n.router, "$CAT", fmt.Sprintf("00000003-0000-4000-8000-%012x", i)), "$EXIT", fmt.Sprintf("00000004-0000-4000-8000-%012x", i))
		} else if n.wait {
			router = fmt.Sprintf(`,"router":{"type":"switch","wait":{"type":"msg"},"result_name":"R%d","operand":"@input.text","cases":[],"categories":[{"uuid":"00000003-0000-4000-8000-%012x","name":"All","exit_uuid":"00000004-0000-4000-8000-%012x"}],"default_category_uuid":"00000003-0000-4000-8000-%012x"}`, i, i, i, i)
		}
		ns = append(ns, fmt.Sprintf(`{"uuid":"00000001-0000-4000-8000-%012x","actions":[%s]%s,"exits":[{"uuid":"00000004-0000-4000-8000-%012x"%s}]}`,
			i, strings.Join(acts, ","), router, i, dest))
	}
	return fmt.Sprintf(`{"uuid":"%s","name":"%s","spec_version":"13.5.0","language":"eng","type":"%s","nodes":[%s]}`, uuid, name, typ, strings.Join(ns, ","))
}

type h2Scenario struct {
	env      envs.Environment
	assets   string // assets JSON
	contact  string // contact JSON (default Bob)
	trigger  func(env envs.Environment, sa flows.SessionAssets, contact *flows.Contact) flows.Trigger
	resumes  []func(sa flows.SessionAssets) flows.Resume // one per wait
	rejectOK bool
	engine   func() flows.Engine
	verbose  bool
	nowFunc  func() dates.NowFunc
}

func h2Msg(text string) func(flows.SessionAssets) flows.Resume {
	return func(flows.SessionAssets) flows.Resume {
		return resumes.NewMsg(nil, nil, flows.NewMsgIn("0c1b2f4e-0000-4000-8000-000000000001", urns.URN("tel:+12065551212"), nil, text, nil))
	}
}

const h2Bob = `{"uuid":"5d76d86b-3bb9-4d5a-b822-c9d86f5d8e4f","name":"Bob","language":"eng","status":"active","created_on":"2020-01-01T12:00:00Z","urns":["tel:+12065551212"]}`

// runs the scenario; returns for every engine call the sprint (events + segments) and the resulting session JSON
func h2Run(t *testing.T, sc *h2Scenario, restart bool) (sprints, sessions []string) {
	uuids.SetGenerator(uuids.NewSeededGenerator(123456, dates.NewSequentialNow(time.Date(2024, 1, 1, 0, 0, 0, 0, time.UTC), time.Second)))
	dates.SetNowFunc(dates.NewSequentialNow(time.Date(2024, 1, 15, 12, 0, 0, 0, time.UTC), time.Second))
	random.SetGenerator(random.NewSeededGenerator(123456))
	if sc.nowFunc != nil {
		dates.SetNowFunc(sc.nowFunc())
	}
	defer uuids.SetGenerator(uuids.DefaultGenerator)
	defer dates.SetNowFunc(time.Now)
	defer random.SetGenerator(random.DefaultGenerator)

	src, err := static.NewSource([]byte(sc.assets))
	if err != nil {
		t.Fatalf("assets: %s", err)
	}
	sa, err := engine.NewSessionAssets(envs.NewBuilder().Build(), src, nil)
	if err != nil {
		t.Fatalf("session assets: %s", err)
	}
	cj := sc.contact
	if cj == "" {
		cj = h2Bob
	}
	contact, err := flows.ReadContact(sa, []byte(cj), assets.IgnoreMissing)
	if err != nil {
		t.Fatal(err)
	}
	env := sc.env
	if env == nil {
		env = envs.NewBuilder().WithAllowedLanguages("eng").WithDefaultCountry("US").Build()
	}
	var eng flows.Engine
	if sc.engine != nil {
		eng = sc.engine()
	} else {
		eng = test.NewEngine()
	}
	record := func(s flows.Session, sp flows.Sprint, err error) {
		if err != nil {
			sprints = append(sprints, "ERROR: "+err.Error())
		} else {
			sprints = append(sprints, fmt.Sprintf("events=%s segments=%s", jsonx.MustMarshal(sp.Events()), jsonx.MustMarshal(sp.Segments())))
		}
		sessions = append(sessions, string(jsonx.MustMarshal(s)))
		if sc.verbose && !restart {
			t.Logf("call %d: %s", len(sprints)-1, sprints[len(sprints)-1])
		}
	}

	var trig flows.Trigger
	if sc.trigger != nil {
		trig = sc.trigger(env, sa, contact)
	} else {
		trig = triggers.NewBuilder(env, assets.NewFlowReference(h2FlowUUID, "Demo"), contact).Manual().Build()
	}
	session, sprint, err := eng.NewSession(sa, trig)
	if err != nil && sc.rejectOK {
		t.Skipf("no session to persist, the flow is rejected when it is read: %s", err)
	} else if err != nil {
		t.Fatalf("start: %s", err)
	}
	record(session, sprint, nil)

	for i, mk := range sc.resumes {
		if restart {
			marshalled := jsonx.MustMarshal(session)
			session, err = eng.ReadSession(sa, marshalled, assets.IgnoreMissing)
			if err != nil {
				t.Errorf("before resume %d: the marshalled session cannot be read back: %s", i+1, err)
				return
			}
			if again := jsonx.MustMarshal(session); string(again) != string(marshalled) {
				t.Errorf("before resume %d: clause 1: marshal -> ReadSession -> marshal is not the same JSON\nfirst:  %s\nsecond: %s", i+1, h2Diff(string(marshalled), string(again)), h2Diff(string(again), string(marshalled)))
			}
		}
		sprint, err := session.Resume(mk(sa))
		record(session, sprint, err)
	}
	if restart {
		// the final state must be persistable as well
		marshalled := jsonx.MustMarshal(session)
		s2, err := eng.ReadSession(sa, marshalled, assets.IgnoreMissing)
		if err != nil {
			t.Errorf("at the end: the marshalled session cannot be read back: %s", err)
		} else if again := jsonx.MustMarshal(s2); string(again) != string(marshalled) {
			t.Errorf("at the end: clause 1: marshal -> ReadSession -> marshal is not the same JSON\nfirst:  %s\nsecond: %s", h2Diff(string(marshalled), string(again)), h2Diff(string(again), string(marshalled)))
		}
	}
	return
}

// the part of a around the first byte where it differs from b
func h2Diff(a, b string) string {
	i := 0
	for i < len(a) && i < len(b) && a[i] == b[i] {
		i++
	}
	return fmt.Sprintf("...%q...", a[max(0, i-100):min(len(a), i+100)])
}

func h2Compare(t *testing.T, sc *h2Scenario) {
	keptSprints, keptSessions := h2Run(t, sc, false)
	restSprints, restSessions := h2Run(t, sc, true)
	for i := range keptSprints {
		if i >= len(restSprints) {
			t.Errorf("call %d was only possible on the kept-alive session", i)
			break
		}
		if keptSprints[i] != restSprints[i] {
			t.Errorf("call %d: clause 2: events/segments differ\nkept alive: %s\nrestarted:  %s", i, h2Diff(keptSprints[i], restSprints[i]), h2Diff(restSprints[i], keptSprints[i]))
		}
		if keptSessions[i] != restSessions[i] {
			t.Errorf("call %d: clause 2: resulting session JSON differs\nkept alive: %s\nrestarted:  %s", i, h2Diff(keptSessions[i], restSessions[i]), h2Diff(restSessions[i], keptSessions[i]))
		}
	}
}

// Finding 2: a session started from a trigger without a contact (legal for the Go API, see TestTriggerSessionInitialization
// and commit f45740a) is marshalled with "trigger":{"contact":null,...}, which ReadSession rejects.
func TestHunt2TriggerWithoutContact(t *testing.T) {
	h2Compare(t, &h2Scenario{
		assets: `{"flows":[` + h2Flow(
			h2Node{actions: []string{`{"type":"set_run_result","name":"Asked","value":"yes"}`}, wait: true},
			h2Node{actions: []string{`{"type":"set_run_result","name":"Got","value":"@input.text"}`}},
		) + `]}`,
		trigger: func(env envs.Environment, sa flows.SessionAssets, contact *flows.Contact) flows.Trigger {
			return triggers.NewBuilder(env, assets.NewFlowReference(h2FlowUUID, "Demo"), nil).Manual().Build()
		},
		resumes: []func(flows.SessionAssets) flows.Resume{h2Msg("hi")},
	})
}
