package engine_test

import (
	"testing"

	"github.com/nyaruka/gocommon/jsonx"
	"github.com/nyaruka/gocommon/uuids"
	"github.com/nyaruka/goflow/assets"
	"github.com/nyaruka/goflow/envs"
	"github.com/nyaruka/goflow/flows"
	"github.com/nyaruka/goflow/flows/engine"
	"github.com/nyaruka/goflow/flows/events"
	"github.com/nyaruka/goflow/flows/resumes"
	"github.com/nyaruka/goflow/flows/triggers"
	"github.com/nyaruka/goflow/test"
	"github.com/stretchr/testify/assert"
	"github.com/stretchr/testify/require"
)

// A session started from a trigger without a contact (legal for the Go API, pinned by TestTriggerSessionInitialization
// and by commit f45740a) reaches a wait like any other session. The host then persists it (json.Marshal) and restores it
// (Engine.ReadSession) to resume it. The restored session must either be resumable, or a resume must be rejected with
// an engine error leaving it untouched. Instead the session cannot be read back at all: the trigger is written with
// "contact": null, and the trigger reader hands that null to flows.ReadContact.
func TestHunt2C10ContactlessWaitingSessionCannotBeRestoredToResume(t *testing.T) {
	sa, err := test.LoadSessionAssets(envs.NewBuilder().Build(), "../../test/testdata/runner/two_questions.json")
	require.NoError(t, err)

	flow, err := sa.Flows().Get("615b8a0f-588c-4d20-a05f-363b0b4ce6f4")
	require.NoError(t, err)

	env := envs.NewBuilder().Build()
	trigger := triggers.NewBuilder(env, flow.Reference(false), nil).Manual().Build() // no contact
	eng := engine.NewBuilder().Build()

	session, _, err := eng.NewSession(sa, trigger)
	require.NoError(t, err)
	require.Equal(t, flows.SessionStatusWaiting, session.Status())

	// in memory the session behaves as C10 says: a dial resume is rejected, the session is untouched...
	before := jsonx.MustMarshal(session)
	_, err = session.Resume(resumes.NewDial(nil, nil, flows.NewDial(flows.DialStatusBusy, 0)))
	require.Error(t, err)
	require.Equal(t, engine.ErrorResumeRejectedByWait, err.(*engine.Error).Code())
	require.Equal(t, string(before), string(jsonx.MustMarshal(session)))

	// ... but a host which persists sessions between sprints can't get that far
	restored, err := eng.ReadSession(sa, before, assets.IgnoreMissing)
	if !assert.NoError(t, err, "waiting session written by the engine can't be read back, so it can never be resumed, retried or failed") {
		return
	}

	// rejected resume leaves restored session untouched
	_, err = restored.Resume(resumes.NewDial(nil, nil, flows.NewDial(flows.DialStatusBusy, 0)))
	require.Error(t, err)
	assert.Equal(t, engine.ErrorResumeRejectedByWait, err.(*engine.Error).Code())
	assert.Equal(t, string(before), string(jsonx.MustMarshal(restored)))

	// and the caller can retry with another resume
	msg := flows.NewMsgIn(flows.MsgUUID(uuids.NewV4()), "tel:+12065551212", nil, "red", nil)
	sprint, err := restored.Resume(resumes.NewMsg(nil, nil, msg))
	require.NoError(t, err)
	assert.Equal(t, flows.SessionStatusWaiting, restored.Status())
	assert.Equal(t, events.TypeMsgReceived, sprint.Events()[0].Type())
}

// Same writer/reader disagreement one level up: the run summary which a start_session action in a contact-less session
// puts on its session_triggered event has "contact": null, and the child session the host starts from it fails in
// prepareForSprint (the function every Resume of that child would go through as well) with a plain Go error.
func TestHunt2C10ContactlessParentRunSummary(t *testing.T) {
	sa, err := test.LoadSessionAssets(envs.NewBuilder().Build(), "../../test/testdata/runner/all_actions.json")
	require.NoError(t, err)

	flow, err := sa.Flows().Get("8ca44c09-791d-453a-9799-a70dd3303306")
	require.NoError(t, err)

	env := envs.NewBuilder().Build()
	eng := test.NewEngine()

	_, sprint, err := eng.NewSession(sa, triggers.NewBuilder(env, flow.Reference(false), nil).Manual().Build())
	require.NoError(t, err)

	var triggered *events.SessionTriggeredEvent
	for _, e := range sprint.Events() {
		if st, ok := e.(*events.SessionTriggeredEvent); ok {
			triggered = st
		}
	}
	require.NotNil(t, triggered)

	childTrigger := triggers.NewBuilder(env, triggered.Flow, nil).FlowAction(triggered.History, triggered.RunSummary).Build()
	_, _, err = eng.NewSession(sa, childTrigger)
	assert.NoError(t, err, "run summary written by the engine can't be read by the engine")
}
