package engine_test

import (
	"testing"

	"github.com/nyaruka/gocommon/jsonx"
	"github.com/nyaruka/goflow/assets"
	"github.com/nyaruka/goflow/envs"
	"github.com/nyaruka/goflow/flows"
	"github.com/nyaruka/goflow/flows/engine"
	"github.com/nyaruka/goflow/flows/resumes"
	"github.com/nyaruka/goflow/flows/triggers"
	"github.com/nyaruka/goflow/test"
	"github.com/stretchr/testify/assert"
	"github.com/stretchr/testify/require"
)

// A session started by a flow_action trigger (i.e. by a start_session action of another session) waits, is persisted
// and restored. A resume which the wait rejects must leave the session exactly as it was. The JSON is indeed unchanged,
// but what the session's public API shows is not: the rejected resume loads the trigger's parent run as a side effect,
// so Session.ParentRun() goes from nil to a run and Session.CurrentContext() (what a host shows / evaluates templates
// against) gains its @parent.
func TestHunt2C10RejectedResumeChangesParentRunAndContext(t *testing.T) {
	sa, err := test.LoadSessionAssets(envs.NewBuilder().Build(), "../../test/testdata/runner/two_questions.json")
	require.NoError(t, err)

	flow, err := sa.Flows().Get("615b8a0f-588c-4d20-a05f-363b0b4ce6f4")
	require.NoError(t, err)

	env := envs.NewBuilder().Build()
	contact := flows.NewEmptyContact(sa, "Bob", "eng", nil)
	parentSummary := []byte(`{
		"uuid": "2307e946-b7c1-4508-b726-4d0ca46be707",
		"flow": {"uuid": "615b8a0f-588c-4d20-a05f-363b0b4ce6f4", "name": "Two Questions"},
		"contact": ` + string(jsonx.MustMarshal(contact)) + `,
		"status": "active",
		"results": {"age": {"name": "Age", "value": "33", "node_uuid": "cd2be8c4-59bc-453c-8777-dec9a80043b8", "created_on": "2018-01-01T12:00:00Z"}}
	}`)
	trigger := triggers.NewBuilder(env, flow.Reference(false), contact).FlowAction(nil, parentSummary).Build()

	eng := engine.NewBuilder().Build()
	live, _, err := eng.NewSession(sa, trigger)
	require.NoError(t, err)
	require.Equal(t, flows.SessionStatusWaiting, live.Status())
	require.NotNil(t, live.ParentRun())

	persisted := jsonx.MustMarshal(live)

	restored, err := eng.ReadSession(sa, persisted, assets.IgnoreMissing)
	require.NoError(t, err)

	evalParent := func(s flows.Session) string {
		v, _ := s.Runs()[0].EvaluateTemplate(`@parent.results.age`, func(flows.Event) {})
		return v
	}

	parentBefore := restored.ParentRun()
	ctxBefore := string(jsonx.MustMarshal(restored.CurrentContext()))
	evalBefore := evalParent(restored)

	// msg wait rejects a dial resume
	_, err = restored.Resume(resumes.NewDial(nil, nil, flows.NewDial(flows.DialStatusBusy, 0)))
	require.Error(t, err)
	require.Equal(t, engine.ErrorResumeRejectedByWait, err.(*engine.Error).Code())

	// JSON is unchanged...
	assert.Equal(t, string(persisted), string(jsonx.MustMarshal(restored)))

	// ... but the session isn't "exactly as it was"
	assert.Equal(t, parentBefore == nil, restored.ParentRun() == nil, "ParentRun() changed by a rejected resume")
	assert.Equal(t, ctxBefore, string(jsonx.MustMarshal(restored.CurrentContext())), "CurrentContext() changed by a rejected resume")
	assert.Equal(t, evalBefore, evalParent(restored), "@parent.results.age evaluates differently after a rejected resume")
}
