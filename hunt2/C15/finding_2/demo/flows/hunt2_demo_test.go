package flows_test

import (
	"testing"

	"github.com/nyaruka/goflow/assets"
	"github.com/nyaruka/goflow/assets/static"
	"github.com/nyaruka/goflow/envs"
	"github.com/nyaruka/goflow/flows"
	"github.com/nyaruka/goflow/flows/engine"
	"github.com/stretchr/testify/assert"
	"github.com/stretchr/testify/require"
)

// A contact whose JSON has a field value without "text" (which the Value struct declares as required) is not rejected
// with an error: ReadContact panics with a nil pointer dereference while building the contact's field values, so the
// contact can never be handed to a query-based group's query.
func TestHunt2C15ContactFieldValueWithoutTextPanics(t *testing.T) {
	env := envs.NewBuilder().Build()
	src, err := static.NewSource([]byte(`{
		"fields": [
			{"uuid": "d66a7823-eada-40e5-9a3a-57239d4690bf", "key": "gender", "name": "Gender", "type": "text"},
			{"uuid": "f1b5aea6-6586-41c7-9020-1a6326cc6565", "key": "age", "name": "Age", "type": "number"}
		],
		"groups": [
			{"uuid": "1e1ce1e1-9288-4504-869e-022d1003c72a", "name": "No Gender", "query": "gender = \"\""},
			{"uuid": "1e1ce1e1-9288-4504-869e-022d1003c72b", "name": "Adults", "query": "age >= 18"}
		]
	}`))
	require.NoError(t, err)
	sa, err := engine.NewSessionAssets(env, src, nil)
	require.NoError(t, err)
	require.Len(t, sa.Groups().All(), 2)

	for _, fields := range []string{
		`{"gender": {}}`,
		`{"gender": {"text": null}}`,
		`{"age": {"number": 21}}`,
	} {
		contactJSON := []byte(`{"uuid": "ba96bf7f-bc2a-4873-a7c7-254d1927c4e3", "created_on": "2020-01-01T00:00:00Z", "fields": ` + fields + `}`)

		assert.NotPanics(t, func() {
			contact, err := flows.ReadContact(sa, contactJSON, assets.PanicOnMissing)
			if err == nil {
				// if the contact is accepted, then evaluating the groups' queries against it must work
				contact.ReevaluateQueryBasedGroups(env)
			}
		}, "contact with fields %s", fields)
	}
}
