package contactql_test

import (
	"testing"
	"time"

	"github.com/nyaruka/goflow/contactql"
	"github.com/nyaruka/goflow/envs"
	"github.com/stretchr/testify/assert"
	"github.com/stretchr/testify/require"
)

type hunt2C15Contact struct{ createdOn time.Time }

func (c *hunt2C15Contact) QueryProperty(env envs.Environment, key string, propType contactql.PropertyType) []any {
	if propType == contactql.PropertyTypeAttribute && key == contactql.AttributeCreatedOn {
		return []any{c.createdOn}
	}
	return nil
}

// A date value whose time-of-day part is hour 24 with minutes, minute 60 or second 60 (the leap second notation) is
// accepted by ParseQuery, and the overflow is carried into the date: the condition is evaluated for the day AFTER the
// calendar day that the value names. Kigali has no DST, so no day involved is other than 24h long.
func TestHunt2C15DateValueTimeOverflowShiftsDay(t *testing.T) {
	tz, err := time.LoadLocation("Africa/Kigali")
	require.NoError(t, err)

	env := envs.NewBuilder().WithTimezone(tz).WithDateFormat(envs.DateFormatDayMonthYear).Build()
	resolver := contactql.NewMockResolver(nil, nil, nil)

	noon14 := &hunt2C15Contact{time.Date(2021, 3, 14, 12, 0, 0, 0, tz)} // a contact created on March 14th
	noon15 := &hunt2C15Contact{time.Date(2021, 3, 15, 12, 0, 0, 0, tz)} // a contact created on March 15th

	eval := func(q string, c contactql.Queryable) bool {
		query, err := contactql.ParseQuery(env, q, resolver)
		require.NoError(t, err, "query %s should parse", q)
		return contactql.EvaluateQuery(env, query, c)
	}

	// sanity: the same day without the overflowing time
	assert.True(t, eval(`created_on = "14-03-2021 23:59:59"`, noon14))
	assert.False(t, eval(`created_on = "14-03-2021 23:59:59"`, noon15))

	for _, value := range []string{
		"14-03-2021 23:59:60", // leap second notation
		"2021-03-14 23:59:60",
		"14-03-2021 23:60",
		"14-03-2021 24:30",
		"14-03-2021 11:60 pm",
	} {
		q := func(op string) string { return "created_on " + op + " " + contactql.QuoteValue(value) }

		// the value names March 14th, so compared by calendar day..
		assert.True(t, eval(q("="), noon14), "%s should hold for a contact created on March 14th", q("="))
		assert.False(t, eval(q("="), noon15), "%s should not hold for a contact created on March 15th", q("="))
		assert.False(t, eval(q("<"), noon14), "%s should not hold for a contact created on March 14th", q("<"))
		assert.True(t, eval(q(">"), noon15), "%s should hold for a contact created on March 15th", q(">"))
		assert.False(t, eval(q("!="), noon14), "%s should not hold for a contact created on March 14th", q("!="))
	}
}
