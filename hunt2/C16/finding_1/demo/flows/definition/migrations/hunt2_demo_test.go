package migrations_test

import (
	"fmt"
	"os"
	"os/exec"
	"strings"
	"testing"
	"time"

	"github.com/nyaruka/goflow/flows/definition/migrations"
)

// a legacy definition, as found in an uploaded export, whose sticky note has a position written with an exponent
const hunt2NoteExponentFlow = `{
	"base_language": "eng",
	"flow_type": "M",
	"version": "11.12",
	"entry": "3b2f4a0c-6b1c-4c0a-9a59-0d0e3a4d8d11",
	"action_sets": [
		{
			"uuid": "3b2f4a0c-6b1c-4c0a-9a59-0d0e3a4d8d11",
			"exit_uuid": "0d4f3a7e-2c1b-4a5d-8e9f-1a2b3c4d5e6f",
			"x": 100, "y": 0,
			"destination": null,
			"actions": [{"type": "reply", "uuid": "7c1d2e3f-4a5b-4c6d-8e7f-9a0b1c2d3e4f", "msg": {"eng": "Hi"}}]
		}
	],
	"rule_sets": [],
	"metadata": {
		"uuid": "50c3706e-fedb-42c0-8eab-dda3335714b7",
		"name": "Note",
		"revision": 1,
		"expires": 10080,
		"notes": [{"x": NOTE_X, "y": 10, "title": "t", "body": "b"}]
	}
}`

// TestHunt2LegacyNotePositionExponent: MigrateToLatest has to return (a definition or an error) for any input.
// The migration runs in a child process with a memory limit because on the unchanged tree it does not return: it
// either exhausts memory ("fatal error: runtime: out of memory" / "cannot allocate memory") or computes for minutes.
func TestHunt2LegacyNotePositionExponent(t *testing.T) {
	if os.Getenv("HUNT2_CHILD") != "" {
		def := strings.Replace(hunt2NoteExponentFlow, "NOTE_X", os.Getenv("HUNT2_CHILD"), 1)
		_, err := migrations.MigrateToLatest([]byte(def), migrations.DefaultConfig)
		if err != nil {
			os.Stdout.WriteString("RETURNED error: " + err.Error() + "\n")
		} else {
			os.Stdout.WriteString("RETURNED ok\n")
		}
		return
	}

	type outcome struct {
		x   string
		msg string // empty if the call returned
	}
	xs := []string{"100", "1e3", "1e2000000000", "1e-2000000000"}
	outcomes := make(chan outcome, len(xs))

	for _, x := range xs {
		go func(x string) {
			cmd := exec.Command("/bin/sh", "-c", "ulimit -v 4000000; exec \"$0\" -test.run '^TestHunt2LegacyNotePositionExponent$' -test.count=1", os.Args[0])
			cmd.Env = append(os.Environ(), "HUNT2_CHILD="+x)

			done := make(chan struct{})
			var out []byte
			var err error
			go func() { out, err = cmd.CombinedOutput(); close(done) }()

			select {
			case <-done:
			case <-time.After(45 * time.Second):
				cmd.Process.Kill()
				<-done
				outcomes <- outcome{x, "MigrateToLatest did not return within 45 seconds (left alone it ends with 'fatal error: out of memory')"}
				return
			}

			if !strings.Contains(string(out), "RETURNED") {
				lines := strings.Split(strings.TrimSpace(string(out)), "\n")
				if len(lines) > 6 {
					lines = lines[:6]
				}
				outcomes <- outcome{x, fmt.Sprintf("MigrateToLatest did not return, process ended with %v:\n%s", err, strings.Join(lines, "\n"))}
				return
			}
			t.Logf("note x=%s: %s", x, strings.TrimSpace(strings.Split(string(out), "\n")[0]))
			outcomes <- outcome{x, ""}
		}(x)
	}

	for range xs {
		o := <-outcomes
		if o.msg != "" {
			t.Errorf("note x=%s: %s", o.x, o.msg)
		}
	}
}
