package migrations_test

import (
	"strings"
	"testing"

	"github.com/nyaruka/gocommon/uuids"
	"github.com/nyaruka/goflow/flows/definition"
	"github.com/nyaruka/goflow/flows/definition/migrations"
	"github.com/stretchr/testify/assert"
	"github.com/stretchr/testify/require"
)

// A 13.2 flow as goflow itself writes it (json.Marshal of a flow omits empty attachments and quick_replies): the base
// language message has neither quick replies nor attachments, the French translation has both, and they use the
// payload of the last webhook call.
const hunt2TranslationOnlyFlow = `{
	"uuid": "50c3706e-fedb-42c0-8eab-dda3335714b7",
	"name": "Translation only",
	"spec_version": "13.2.0",
	"language": "eng",
	"type": "voice",
	"nodes": [
		{
			"uuid": "365293c7-633c-45bd-96b7-0b059766588d",
			"actions": [
				{
					"uuid": "8eebd020-1af5-431c-b943-aa670fc74da9",
					"type": "send_msg",
					"text": "Pick one of @webhook.first or @webhook.second"
				},
				{
					"uuid": "3b2f4a0c-6b1c-4c0a-9a59-0d0e3a4d8d11",
					"type": "say_msg",
					"text": "Hello @webhook.name"
				}
			],
			"exits": [{"uuid": "3d2a6e9d-e0cf-4e2c-8d2c-bb7ffa8e1bc2"}]
		}
	],
	"localization": {
		"fra": {
			"8eebd020-1af5-431c-b943-aa670fc74da9": {
				"text": ["Choisissez @webhook.first ou @webhook.second"],
				"quick_replies": ["@webhook.first", "@webhook.second"],
				"attachments": ["image:@webhook.image_url"]
			},
			"3b2f4a0c-6b1c-4c0a-9a59-0d0e3a4d8d11": {
				"text": ["Bonjour @webhook.name"]
			}
		}
	}
}`

func TestHunt2WebhookInTranslationWithoutBaseMember(t *testing.T) {
	migrated, err := migrations.MigrateToLatest([]byte(hunt2TranslationOnlyFlow), migrations.DefaultConfig)
	require.NoError(t, err)

	flow, err := definition.ReadFlow(migrated, nil)
	require.NoError(t, err)

	loc := flow.Localization()

	// the translations of a member that the base has are rewritten...
	assert.Equal(t, []string{"Choisissez @webhook.json.first ou @webhook.json.second"}, loc.GetItemTranslation("fra", "8eebd020-1af5-431c-b943-aa670fc74da9", "text"))
	assert.Equal(t, []string{"Bonjour @webhook.json.name"}, loc.GetItemTranslation("fra", "3b2f4a0c-6b1c-4c0a-9a59-0d0e3a4d8d11", "text"))

	// ...and those of a member which the base doesn't have are used at run time just the same (run.GetTextArray),
	// so they have to be rewritten as well. From 13.3 on @webhook.first is a lookup on {status, headers, json} and
	// evaluates to an error instead of the payload member.
	for _, tc := range []struct {
		item     uuids.UUID
		property string
	}{
		{"8eebd020-1af5-431c-b943-aa670fc74da9", "quick_replies"},
		{"8eebd020-1af5-431c-b943-aa670fc74da9", "attachments"},
	} {
		for _, tpl := range loc.GetItemTranslation("fra", tc.item, tc.property) {
			assert.True(t, !strings.Contains(tpl, "@webhook.") || strings.Contains(tpl, "@webhook.json."),
				"%s translation %q still refers to the 13.2 meaning of @webhook after migration", tc.property, tpl)
		}
	}
}
