package legacy_test

import (
	"strings"
	"testing"

	"github.com/nyaruka/goflow/flows/definition"
	"github.com/nyaruka/goflow/flows/definition/migrations"
	"github.com/stretchr/testify/assert"
	"github.com/stretchr/testify/require"
)

// a legacy flow with an airtime rule set, as the legacy editor saved it: one entry per country, each with the
// currency of that country and the amount to transfer. CONFIG is replaced below.
const hunt2AirtimeFlow = `{
	"base_language": "eng",
	"flow_type": "M",
	"version": "11.12",
	"entry": "75656148-9e8b-4611-82c0-7ff4b55fb44a",
	"action_sets": [
		{
			"uuid": "5b977652-91e3-48be-8e86-7c8094b4aa8f",
			"exit_uuid": "0d4f3a7e-2c1b-4a5d-8e9f-1a2b3c4d5e6f",
			"x": 100, "y": 600,
			"destination": null,
			"actions": [{"type": "reply", "uuid": "7c1d2e3f-4a5b-4c6d-8e7f-9a0b1c2d3e4f", "msg": {"eng": "Sent"}}]
		}
	],
	"rule_sets": [
		{
			"uuid": "75656148-9e8b-4611-82c0-7ff4b55fb44a",
			"x": 240, "y": 430,
			"label": "Transfer",
			"ruleset_type": "airtime",
			"operand": "@step.value",
			"finished_key": null,
			"rules": [
				{
					"uuid": "6103fa71-6ca9-4300-aec6-929f50fa1ae0",
					"category": {"eng": "Success"},
					"destination": "5b977652-91e3-48be-8e86-7c8094b4aa8f",
					"destination_type": "A",
					"test": {"type": "airtime_status", "exit_status": "success"}
				},
				{
					"uuid": "bcb18434-1932-4a38-a4cd-a2c4a70b8e9a",
					"category": {"eng": "Failure"},
					"destination": null,
					"destination_type": null,
					"test": {"type": "airtime_status", "exit_status": "failed"}
				}
			],
			"config": CONFIG
		}
	],
	"metadata": {"uuid": "50c3706e-fedb-42c0-8eab-dda3335714b7", "name": "Airtime", "revision": 1, "expires": 10080}
}`

func TestHunt2LegacyAirtimeSameCurrencySameAmount(t *testing.T) {
	tcs := []struct {
		label  string
		config string
	}{
		{
			"two countries, different currencies (as in legacy/testdata/rulesets.json)",
			`{
				"EC": {"code": "EC", "name": "Ecuador", "currency_code": "USD", "currency_name": "US Dollar", "amount": 3},
				"BR": {"code": "BR", "name": "Brazil", "currency_code": "BRL", "currency_name": "Brazilian Real", "amount": 2.5}
			}`,
		},
		{
			"two countries which use the same currency, same amount",
			`{
				"EC": {"code": "EC", "name": "Ecuador", "currency_code": "USD", "currency_name": "US Dollar", "amount": 3},
				"SV": {"code": "SV", "name": "El Salvador", "currency_code": "USD", "currency_name": "US Dollar", "amount": 3}
			}`,
		},
		{
			"two euro countries, same amount",
			`{
				"BE": {"code": "BE", "name": "Belgium", "currency_code": "EUR", "currency_name": "Euro", "amount": "5"},
				"FR": {"code": "FR", "name": "France", "currency_code": "EUR", "currency_name": "Euro", "amount": "5"}
			}`,
		},
	}

	for _, tc := range tcs {
		def := []byte(strings.Replace(hunt2AirtimeFlow, "CONFIG", tc.config, 1))

		migrated, err := migrations.MigrateToLatest(def, migrations.DefaultConfig)
		if !assert.NoError(t, err, "%s: a valid legacy definition could not be migrated", tc.label) {
			continue
		}

		flow, err := definition.ReadFlow(migrated, nil)
		require.NoError(t, err, "%s: migrated definition doesn't load", tc.label)
		assert.Equal(t, "50c3706e-fedb-42c0-8eab-dda3335714b7", string(flow.UUID()))
		assert.Len(t, flow.Nodes(), 2)
	}
}
