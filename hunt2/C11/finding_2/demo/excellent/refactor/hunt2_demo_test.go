package refactor_test

import (
	"testing"

	"github.com/nyaruka/goflow/envs"
	"github.com/nyaruka/goflow/excellent"
	"github.com/nyaruka/goflow/excellent/refactor"
	"github.com/nyaruka/goflow/excellent/types"
)

// C11: "a reference-renaming transformation changes exactly the renamed references".
//
// The capture-avoiding step of ContextRefRename (repair c03d974) gives every parameter whose lower case is the new
// name ONE new name. An anonymous function can have two parameters which differ only by case, (Bar, bar) => ...: a
// reference to either resolves to the property that sorts first (XObject.Get, repair c2f4026), i.e. to Bar, the first
// argument. After the step both parameters are spelled bar_, the second overwrites the first in the argument map, and
// the references now give the second argument - references which are not the renamed ones change their value.
func TestHunt2C11RenameMergesCaseVariantParameters(t *testing.T) {
	env := envs.NewBuilder().Build()
	V := types.NewXText("V")

	tcs := []struct {
		template string
		from, to string
	}{
		{`@(((Bar, bar) => foo & bar)("1", "2"))`, "foo", "bar"},
		{`@(((Bar, bar) => foo & Bar)("1", "2"))`, "foo", "bar"},
		{`@(foreach(array("a", "b"), (x) => ((JSON, json) => x & foo & json)("1", "2")))`, "foo", "json.foo"},
	}

	for _, tc := range tcs {
		// before: the value is at tc.from, the new name is not in use
		before := types.NewXObject(map[string]types.XValue{tc.from: V})

		// after: the value is where tc.to says, the old name is gone
		var after *types.XObject
		if tc.to == "bar" {
			after = types.NewXObject(map[string]types.XValue{"bar": V})
		} else {
			after = types.NewXObject(map[string]types.XValue{"json": types.NewXObject(map[string]types.XValue{"foo": V})})
		}

		rewritten, err := refactor.Template(tc.template, nil, refactor.ContextRefRename(tc.from, tc.to))
		if err != nil {
			t.Fatalf("%s: %s", tc.template, err)
		}

		v1, _, err1 := excellent.NewEvaluator().Template(env, before, tc.template, nil)
		v2, _, err2 := excellent.NewEvaluator().Template(env, after, rewritten, nil)
		if err1 != nil {
			t.Fatalf("%s: original doesn't evaluate: %s", tc.template, err1)
		}
		if err2 != nil || v1 != v2 {
			t.Errorf("rename %s -> %s\n   original: %s = %q\n  rewritten: %s = %q (%v)", tc.from, tc.to, tc.template, v1, rewritten, v2, err2)
		}
	}
}
