package migrations_test

import (
	"strings"
	"testing"

	"github.com/Masterminds/semver"
	"github.com/nyaruka/gocommon/jsonx"
	"github.com/nyaruka/goflow/envs"
	"github.com/nyaruka/goflow/excellent"
	"github.com/nyaruka/goflow/excellent/refactor"
	"github.com/nyaruka/goflow/excellent/types"
	"github.com/nyaruka/goflow/flows/definition/migrations"
)

// The same through the host entry point: a 13.2 definition whose message text sums webhook and 2497 ones is valid and
// its text evaluates (to 2502); migrating it to 13.3 gives a text that no longer parses.
func TestHunt2C11Migrate13_3AtParseDepthLimit(t *testing.T) {
	env := envs.NewBuilder().Build()

	n := 0
	for i := 2400; i < 2600; i++ {
		if _, err := excellent.Parse("webhook"+strings.Repeat(" + 1", i), nil); err != nil {
			break
		}
		n = i
	}
	text := "total: @(webhook" + strings.Repeat(" + 1", n) + ")"

	flow := map[string]any{
		"uuid":         "c8d5fa87-0f9c-4e2c-a0c0-21e2a7d9a0c1",
		"name":         "Deep",
		"spec_version": "13.2.0",
		"language":     "eng",
		"type":         "messaging",
		"nodes": []any{
			map[string]any{
				"uuid": "6d1f3b2a-96a1-4c0f-8e6e-1f0e0b4e1a11",
				"actions": []any{
					map[string]any{"uuid": "0b9c7a1e-52f4-4c8e-9a53-2a5b8e7f3c22", "type": "send_msg", "text": text},
				},
				"exits": []any{map[string]any{"uuid": "f3a9d2c4-7b6e-4d1f-8c2a-9e0b1d2c3f33"}},
			},
		},
	}

	migrated, err := migrations.MigrateToVersion(jsonx.MustMarshal(flow), semver.MustParse("13.3.0"), migrations.DefaultConfig)
	if err != nil {
		t.Fatal(err)
	}

	var out struct {
		Nodes []struct {
			Actions []struct {
				Text string `json:"text"`
			} `json:"actions"`
		} `json:"nodes"`
	}
	jsonx.MustUnmarshal(migrated, &out)
	newText := out.Nodes[0].Actions[0].Text

	payload := types.NewXNumberFromInt(5)
	before := types.NewXObject(map[string]types.XValue{"webhook": payload})
	after := types.NewXObject(map[string]types.XValue{
		"webhook": types.NewXObject(map[string]types.XValue{"json": payload}),
	})

	v1, _, err1 := excellent.NewEvaluator().Template(env, before, text, nil)
	if err1 != nil {
		t.Fatalf("original text doesn't evaluate")
	}
	if newText == text {
		t.Log("text left as it was (the rename could not be done)")
		return
	}

	v2, _, err2 := excellent.NewEvaluator().Template(env, after, newText, nil)
	if err2 != nil {
		msg := err2.Error()
		t.Errorf("13.2 text evaluates to %q, migrated text (%d -> %d bytes) fails: ...%s", v1, len(text), len(newText), msg[len(msg)-60:])
	} else if v1 != v2 {
		t.Errorf("13.2 text evaluates to %q, migrated text to %q", v1, v2)
	}
}

// C11: "a reference-renaming transformation changes exactly the renamed references - which is what makes template
// rewrites in flow migrations meaning-preserving".
//
// An expression that is exactly as deep as excellent.Parse allows (MaxParseDepth, repair 5096ab5) and refers to
// webhook at its deepest point parses and evaluates. ContextRefRename("webhook", "webhook.json"), the rename of
// Migrate13_3, replaces that leaf by a lookup, which is one level deeper. refactor.Template prints the changed tree
// without reading it back, reports no error, and the template it returns no longer evaluates.
func TestHunt2C11RenameAtParseDepthLimit(t *testing.T) {
	env := envs.NewBuilder().Build()

	shapes := map[string]func(n int) string{
		"sum":    func(n int) string { return "webhook" + strings.Repeat(" + 1", n) },
		"concat": func(n int) string { return "webhook" + strings.Repeat(` & "a"`, n) },
		"minus":  func(n int) string { return strings.Repeat("-", n) + "webhook" },
	}

	for name, shape := range shapes {
		// the longest expression of this shape that Parse accepts
		n := 0
		for i := 2400; i < 2600; i++ {
			if _, err := excellent.Parse(shape(i), nil); err != nil {
				break
			}
			n = i
		}
		if n == 0 {
			t.Fatalf("%s: no parseable expression found", name)
		}

		original := "total: @(" + shape(n) + ")"

		// before: webhook is the payload, after: the payload is webhook.json
		payload := types.NewXNumberFromInt(5)
		before := types.NewXObject(map[string]types.XValue{"webhook": payload})
		after := types.NewXObject(map[string]types.XValue{
			"webhook": types.NewXObject(map[string]types.XValue{"json": payload}),
		})

		v1, _, err1 := excellent.NewEvaluator().Template(env, before, original, nil)
		if err1 != nil {
			t.Fatalf("%s: original template doesn't evaluate: %s", name, short(err1.Error()))
		}

		// exactly what Migrate13_3 does
		rewritten, rerr := refactor.Template(original, []string{"webhook"}, refactor.ContextRefRename("webhook", "webhook.json"))
		if rerr != nil {
			// the rename can't be done, and says so: the host knows that this template was not migrated
			t.Logf("%s (%d operators): refactor reported: %s", name, n, short(rerr.Error()))
			continue
		}

		v2, _, err2 := excellent.NewEvaluator().Template(env, after, rewritten, nil)
		if err2 != nil {
			t.Errorf("%s (%d operators): original evaluates to %q, the rewritten template (no error reported by refactor.Template) fails: %s",
				name, n, short(v1), short(err2.Error()))
		} else if v1 != v2 {
			t.Errorf("%s (%d operators): original evaluates to %q, rewritten to %q", name, n, short(v1), short(v2))
		}
	}
}

func short(s string) string {
	if len(s) > 120 {
		return s[:50] + " ... " + s[len(s)-60:]
	}
	return s
}
