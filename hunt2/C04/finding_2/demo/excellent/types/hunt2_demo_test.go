package types_test

import (
	"context"
	"fmt"
	"os"
	"os/exec"
	"strings"
	"syscall"
	"testing"
	"time"

	"github.com/nyaruka/goflow/envs"
	"github.com/nyaruka/goflow/excellent"
	"github.com/nyaruka/goflow/excellent/types"
)

// d = (x) => array(x, x) makes an array that holds the same value twice, so d(d(...d(1)...)) with 40 calls is a value
// made of 41 small objects in memory which nevertheless has 2^40 leaves when it is walked. Nothing that builds it is
// slow (count() of it returns 2 immediately) but every conversion of it to text or JSON - the = operator, &, text(),
// json(), format(), or simply being the value of a template - walks all 2^40 leaves and never returns. So does comparing
// two such values, which unique() and contains() do.
//
// Evaluated in a child process (address space limited to 3GB) which is given 20 seconds.
func TestHunt2C04SharedSubvalueRender(t *testing.T) {
	if tpl := os.Getenv("HUNT2_C04_F2_TEMPLATE"); tpl != "" {
		syscall.Setrlimit(syscall.RLIMIT_AS, &syscall.Rlimit{Cur: 3 << 30, Max: 3 << 30})

		env := envs.NewBuilder().Build()
		out, _, err := excellent.NewEvaluator().Template(env, types.NewXObject(map[string]types.XValue{}), tpl, nil)
		fmt.Printf("RETURNED out=%q err=%v\n", out, err)
		return
	}

	nested := strings.Repeat("d(", 40) + `1` + strings.Repeat(")", 40)

	templates := []string{
		`@(((d) => count(` + nested + `))((x) => array(x, x)))`,                                   // fine: 2
		`@(((d) => ` + nested + ` = 1)((x) => array(x, x)))`,                                      // operator converts to text
		`@(((d) => is_error(json(` + nested + `)))((x) => array(x, x)))`,                          // JSON
		`@(((d) => is_error(format(` + nested + `)))((x) => array(x, x)))`,                        // format
		`@(((d) => is_error(text(` + nested + `)))((x) => object("a", x, "b", x)))`,               // same with objects
		`@(((d) => is_error(unique(array(` + nested + `, ` + nested + `))))((x) => array(x, x)))`, // comparing two such values
		`@(((d) => is_error(contains(array(` + nested + `), ` + nested + `)))((x) => array(x, x)))`,
	}

	for _, tpl := range templates {
		ctx, cancel := context.WithTimeout(context.Background(), 20*time.Second)
		cmd := exec.CommandContext(ctx, os.Args[0], "-test.run=^TestHunt2C04SharedSubvalueRender$")
		cmd.Env = append(os.Environ(), "HUNT2_C04_F2_TEMPLATE="+tpl)
		start := time.Now()
		output, err := cmd.CombinedOutput()
		elapsed := time.Since(start)
		cancel()

		lines := strings.Split(string(output), "\n")
		if len(lines) > 3 {
			lines = lines[:3]
		}
		summary := strings.Join(lines, "\n")
		if len(summary) > 600 {
			summary = summary[:600] + "..."
		}

		if err != nil || !strings.Contains(string(output), "RETURNED") {
			t.Errorf("evaluating the %d character template %s\n  did not return after %s (%v):\n%s", len(tpl), tpl, elapsed.Round(time.Second), err, summary)
		} else {
			t.Logf("%s\n  %s", tpl, summary)
		}
	}
}
