package excellent_test

import (
	"context"
	"fmt"
	"os"
	"os/exec"
	"strings"
	"syscall"
	"testing"
	"time"

	"github.com/nyaruka/goflow/envs"
	"github.com/nyaruka/goflow/excellent"
	"github.com/nyaruka/goflow/excellent/types"
)

// Each of these short templates has a short result (a length, or an error) but building it needs a text of 10^10 bytes
// or more, which ends the host with Go's unrecoverable "fatal error: out of memory". They are evaluated in a child
// process whose address space is limited to 3GB so that the machine running the test isn't brought down with it.
func TestHunt2C04TextAmplification(t *testing.T) {
	if tpl := os.Getenv("HUNT2_C04_F1_TEMPLATE"); tpl != "" {
		syscall.Setrlimit(syscall.RLIMIT_AS, &syscall.Rlimit{Cur: 3 << 30, Max: 3 << 30})

		env := envs.NewBuilder().Build()
		out, _, err := excellent.NewEvaluator().Template(env, types.NewXObject(map[string]types.XValue{}), tpl, nil)
		fmt.Printf("RETURNED out=%q err=%v\n", out, err)
		return
	}

	// d(d(...d("x")...)) where d = (x) => x & x .. 36 calls make a text of 2^36 characters
	doubled := strings.Repeat("d(", 36) + `"x"` + strings.Repeat(")", 36)

	templates := []string{
		`@(((d) => text_length(` + doubled + `))((x) => x & x))`,
		`@(text_length(replace(repeat("x", 100000), "", repeat("y", 100000))))`,
		`@(text_length(join(split(repeat("a ", 50000), " "), repeat("y", 100000))))`,
	}

	for _, tpl := range templates {
		ctx, cancel := context.WithTimeout(context.Background(), 2*time.Minute)
		cmd := exec.CommandContext(ctx, os.Args[0], "-test.run=^TestHunt2C04TextAmplification$")
		cmd.Env = append(os.Environ(), "HUNT2_C04_F1_TEMPLATE="+tpl)
		output, err := cmd.CombinedOutput()
		cancel()

		lines := strings.Split(string(output), "\n")
		if len(lines) > 4 {
			lines = lines[:4]
		}
		summary := strings.Join(lines, "\n")

		if err != nil || !strings.Contains(string(output), "RETURNED") {
			t.Errorf("evaluating the %d character template %s\n  did not return (%v):\n%s", len(tpl), tpl, err, summary)
		} else {
			t.Logf("%s\n  %s", tpl, summary)
		}
	}
}
