package cases_test

import (
	"strings"
	"testing"
	"time"

	"github.com/nyaruka/goflow/envs"
	"github.com/nyaruka/goflow/excellent"
	"github.com/nyaruka/goflow/excellent/functions"
	"github.com/nyaruka/goflow/excellent/types"
	"github.com/nyaruka/goflow/flows/routers/cases"
)

// The has_pattern router test and the regex_match function compile a pattern which comes from the flow definition
// and match it against text that usually comes from the contact. A counted repetition makes a short pattern into a big
// program - (a?){1000} is 10 characters and ~2000 instructions - and matching costs text length x program size x
// capture groups. A pattern of 1000 characters against a text of 1000 characters takes about a minute (both are
// ordinary sizes for a router case argument and a message); with 10000 characters of text, ten minutes; and when text
// and pattern are built with repeat() the 93 character template below doesn't return at all.
func TestHunt2C04RegexCost(t *testing.T) {
	env := envs.NewBuilder().Build()

	text := types.NewXText(strings.Repeat("a", 1000))
	pattern := types.NewXText(strings.Repeat("(a?){1000}", 100) + "b") // 1001 characters

	run := func(name string, f func() types.XValue) {
		done := make(chan types.XValue, 1)
		start := time.Now()
		go func() { done <- f() }()

		select {
		case res := <-done:
			t.Logf("%s returned %s after %s", name, types.String(res), time.Since(start))
		case <-time.After(10 * time.Second):
			t.Errorf("%s has not returned after 10 seconds", name)
		}
	}

	run(`has_pattern(<1000 x "a">, <100 x "(a?){1000}" & "b">)`, func() types.XValue {
		return cases.XTESTS["has_pattern"].Call(env, []types.XValue{text, pattern})
	})
	run(`regex_match(<1000 x "a">, <100 x "(a?){1000}" & "b">)`, func() types.XValue {
		return functions.XFUNCTIONS["regex_match"].Call(env, []types.XValue{text, pattern})
	})

	tpl := `@(has_pattern(repeat("a", 100000), repeat("(a?){1000}", 50) & "b"))`
	run(tpl, func() types.XValue {
		out, _, err := excellent.NewEvaluator().Template(env, types.NewXObject(map[string]types.XValue{}), tpl, nil)
		if err != nil {
			return types.NewXError(err)
		}
		return types.NewXText(out)
	})
}
